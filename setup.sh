#!/bin/sh
# offline setup: contract libraries next to the repository's interpreter (target dir is git-ignored)
set -e
cd "$(dirname "$0")"
if [ ! -d .deps/icontract ]; then
  /venv/bin/pip install -q --no-index --find-links /opt/veriftools/wheels --target .deps icontract deal >/dev/null 2>&1 || \
  /venv/bin/pip install --no-index --find-links /opt/veriftools/wheels --target .deps icontract deal
fi
/venv/bin/python -c "import sys; sys.path.insert(0,'.deps'); import icontract, deal; import pydoctor; print('setup ok', pydoctor.__file__)"
