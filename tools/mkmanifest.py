#!/venv/bin/python
"""Regenerate MANIFEST.json from the table below (kept valid at all times)."""
import json
import os

VERIF = os.path.dirname(os.path.dirname(os.path.abspath(__file__)))

CHECKS = {
    'C06': dict(
        technique='metamorphic monitor over injected schedules: every reachable processing order (exhaustive for small projects) is realised by permuting System.unprocessed_modules, the realised order is recorded by wrapping processModule, canonical dumps are compared; renamed twins check the injection against the file system; violations attributed by counterfactual re-runs with one known mechanism repaired',
        text='Exploration over schedules. For each generated project all reachable orders (own __init__ first, children and roots in any order; up to 12/40, else sampled) are executed and the dumps of System.allobjects (type, kind, docstring, parent, bases, linearisation, subclasses, __all__, re-export location) compared; projects in which the analysis ran into an import cycle (observed at run time: a module handed out while PROCESSING) are compared on the class hierarchy only, classes identified by definition site. The same project printed under module names with a different alphabetical order is analysed without injection and compared modulo renaming. Evidence counts distinct realised schedules. A directed family of 72 projects with a real module-level cycle (the defining module imports its single re-exporter back at the bottom or between two classes) is run under all orders and judged without attribution, because none of the known mechanisms has a trigger in it.',
        note='A disagreement is credited to a known finding only if (a) re-running the two orders with that single mechanism repaired by a wrapper makes them agree, or (b) the run recorded that mechanism\'s witness for the differing class; anything else is a new violation.',
        ref='4/C06'),
    'C07': dict(
        technique='ground-truth monitor: expected location of every re-exported object comes from the generator; registry, consumer name resolution, base classes, annotations and docstring cross-references (old and new qualified name) are checked under every reachable processing order; counterfactual attribution',
        text='Exploration. Generated packages with one re-exporter per object (package or sibling module; plain, renamed, star), negative controls listed in the defining module\'s own __all__, and consumer modules that reach the object from the defining module, the re-exporting module, a module alias or both are analysed in every reachable order (<=6/24, else sampled); the object and its members must be registered exactly at the exported name, and every consumer reference must lead to that one object. Definitions of the defining module that name the object in annotations and are themselves re-exported by another module (insiders) must still link to it in the rendered attribute type and signatures.',
        note='Only the single-re-exporter shape of the statement is generated; the stale-import mechanism is credited only when the problem vanishes in a re-run of the same order with that mechanism alone repaired.',
        ref='4/C07'),
    'C08': dict(
        technique='total-function monitor plus conservation check over hooked events: the plaintext fallback parser, the stan fallbacks and reportErrors (fatal flags) are wrapped from the harness; "gave up => reported, counted, and full original text shown in <p class=pre>"; neighbour differential against a clean system',
        text='Exploration. A markup-fragment fuzzer (four markups, broken nesting/indentation, unknown directives, roles and fields, headings without slug, doctest indentation errors, arbitrary Unicode incl. controls and surrogates, mutated real docstrings, deep repetitions) drives format_docstring, format_summary, format_toc and flatten for eight object kinds x five docformats x process-types on/off; exceptions and confirmed CPU-budget overruns are violations; when the monitors saw the parser or renderer give up, the object must be in System.parse_errors, a counted message must exist and the page must show the complete docstring as plain text; recoverable reST problems must be reported (judged twice: against pydoctor\'s own parser called directly and against plain docutils parsing the same text, structural messages only); a control function in the same module must render as in a clean system. The same objects rendered in two orders must give the same per-object output; a plain first line must be shown whatever follows it; an overriding member without docstring degrades like the owner of the inherited docstring.',
        note='A "fatal" error means giving up for epytext only (docutils flags recovered errors as fatal too); BROKEN placeholders are legal for summary/toc/fields only; raw/include point to non-existent paths.',
        ref='4/C08'),
    'C09': dict(
        technique='conservation monitor with unique word tokens: structure-aware documents carry ground truth (token order, exact verbatim block text per markup rules, field membership); the visible text of the real format_docstring output is extracted and compared',
        text='Exploration. Documents built from paragraphs of unique tokens, inline markup, nested lists three deep, literal blocks whose lines look like markup, doctest blocks, sections and fields of every kind (also with literal blocks inside field bodies) are serialised to epytext, reST, Google and NumPy layouts by serializers that encode each markup\'s own rules; the rendered body must show the tokens in source order with nothing glued, every verbatim block character for character, and every field\'s tokens in the row/section of that field (or the field named in a warning); plaintext documents must be reproduced exactly. Code and doctest blocks carry irregular spacing and non-Python languages; consolidated field lists have multi-block items; the host function is sometimes annotated.',
        note='Well-formed means "as written by vf/gen/docgen.py", each rule citing the markup manual (lists indented in epytext, blocks closed by blank lines, literal text relative to the introducing paragraph in epytext and to the common indentation in docutils). One Google-style defect is a known finding.',
        ref='4/C09'),
    'C10': dict(
        technique='strict XML parse (expat) of every page written by the real driver + canary/control structural differential: element/attribute skeleton of the hostile run must equal that of a control run in which only the five HTML-significant characters of each planted canary are replaced',
        text='Exploration. A directed module plants unique canaries (tag/attribute/handler look-alikes, entity look-alikes, CDATA and comment delimiters, a script element) in 40+ positions where source text flows into pages (docstrings of every object kind, field bodies and field arguments, constants, defaults, string annotations, decorator arguments, base subscripts, __all__, deprecation messages) under all five docformats; generated projects carry canaries in docstrings; real packages are rendered too. Every page must be well-formed once characters illegal in XML are set aside, and no element or attribute may exist in the hostile output that the control output lacks. Canaries also sit in link labels (well-formed markup that survives a re-parse), in values that force the fallback renderer (U+00A0), in bytes literals and in non-Python code blocks; the directed module must itself parse (deciding counter).',
        note='Pure presentational spans (class attribute only) and <wbr> are removed from both skeletons because their placement depends on the escaped length of words; in type fields the quote characters belong to the type mini-language, so canaries there carry none; href/src values of explicit link markup and reST raw/include are outside the statement.',
        ref='4/C10'),
    'C11': dict(
        technique='offline closed-world link check over the complete output directory of the real driver (every href/src, anchor, all-documents url and search reference), joined with the live model and an independent page-layout reference',
        text='Exploration. Generated projects (inheritance, inherited docstrings with cross-references, re-exports, duplicates, privacy rules, nested classes, non-ASCII and root-named modules, several roots) under varying themes, sidebar depths, member orders and docformats, plus real packages, are rendered by the real driver; the crawler resolves ~170k links per quick run against the files written and the id/name anchors they contain, checks the search records, and checks that every visible module/class has its page and every visible member its anchor.',
        note='External, source and intersphinx links are ignored; a dead link is attributed to a known mechanism by what its target is in the live model (superseded duplicate, displaced module).',
        ref='4/C11'),
    'C12': dict(
        technique='offline closed-world trace search over the output directory for every hidden object (files, anchors, link targets, listing entries, search records, inventory lines) and marker check for every listing entry of private objects, joined with the live model\'s privacy',
        text='Exploration. Generated projects are rendered under two (quick) to four (thorough) generated --privacy rule lists each (exact names and patterns, all three levels, in varying order), covering hidden bases of visible classes, hidden modules that are imported from, hidden members that are overridden or cross-referenced and private objects in every listing; the whole output is searched for traces of each hidden object and each private listing entry is checked for the marker the public/private toggle acts on. One partial build per project (--html-subject naming objects inside and outside hidden containers) is searched in the same way. Expected privacy is derived from the rule list with the manual\'s reference matcher (not read from the model); rule lists contain conflicting exact rules and rules on members inherited without override; sidebar items without a link are read too.',
        note='Only links, anchors, entries, records and files count as traces (not textual mentions); the judged listings are those the statement names (member tables, member details, sidebar, module index, search documents).',
        ref='4/C12'),
    'C13': dict(
        technique='reference-model monitor: qnmatch and System.privacyClass compared online with a regex-free matcher and a 12-line precedence model, exhaustive over a bounded pattern/name space',
        text='Exploration with an independent executable model as oracle. Every (pattern, name) pair up to the length bound over the quoting-relevant alphabet is executed against the real qnmatch and compared with a reference matcher written from the manual; rule lists are fed through the real option parser into a live System and every object\'s privacyClass / isVisible is compared with the reference precedence. Held on the executions run (bounded space completed), not a proof.',
        note='Trusts the reference matcher (vf/ref/glob_ref.py) as a reading of the manual; forms the manual does not define are executed for totality only.',
        ref='4/C13'),
    'C01': dict(
        technique='process-level monitor around the real driver.main run in-process: exception capture keyed by mechanism, exit status, conservation over the input files (every file a processed module or reported by a message naming it; modules recorded at creation by a wrapper of System.analyzeModule), artefact inventory with completeness of every page, sys.addaudithook monitor for writes outside the output directory, differential run for the unparsable-neighbour clause, CPU-time watchdog confirmed alone, and a sample repeated as `python -X dev -m pydoctor` subprocesses',
        text='Exploration. Workloads: real packages of the stdlib, site-packages and pydoctor itself under every docformat; G-WILD packages (random ast over all statement, expression, pattern and type-parameter classes with the names pydoctor interprets, fuzzed docstrings); G-PROJ projects; MUT byte/line/token/encoding mutations of generated and real files with surely-unparsable siblings; about fifty directed stress trees (operator chains up to 3000 terms, nesting, huge literals, lone surrogates, odd __all__/__docformat__/imports/decorators/annotations, name clashes, odd file names and encodings, broken __init__.py, duplicate and multiple roots, symlink loop, 400-module import chain). Since rounds 3-4: non-source files beside modules (.pyc/.pyo/.pyi/.so/.pyw/backup), directories named like modules, odd and very long cross-reference targets (each directed input with its own small CPU budget, so a hang is decided in seconds), a package re-exported by its own submodule; a superseded input is accepted only when the winner is itself an input file, and reports must name the exact path.',
        note='Option errors (exit 1) are outside the workload. Two inputs with the same qualified name cannot both be documented; the superseded one is accepted when a duplicate message is issued. Pages of objects that are registered but unreachable from the roots are a known finding shared with C02/C11.',
        ref='4/C01'),
    'C02': dict(
        technique='invariant monitors at hooks: icontract postconditions (with OLD snapshots) attached from the harness to System.addObject / handleDuplicate / Documentable.reparent check the touched subtree after every registry mutation; whole-system invariants R1-R9 at quiescence; processing orders injected at the boundary',
        text='Exploration. Generated projects whose analysis history mixes re-export moves, duplicate definitions (also inside classes and of moved names), a class re-exported under a submodule name, import cycles, nested classes, field attributes and zope.interface declarations are analysed under several reachable processing orders, and real packages are analysed; the monitors evaluate the registry/tree invariants of the statement where the state becomes observable (at return of each mutation) and on the whole system after process(). The repository\'s own test packages and directed duplicate roots (module beside package, two roots of one name) are part of the corpus.',
        note='Transient states inside one mutation are not judged; superseded duplicates are exempt from the entry-in-parent clause as the statement says; R7/R8 only for systems post-processed once. Two defects are listed as known findings by mechanism.',
        ref='4/C02'),
    'C03': dict(
        technique='reference-model monitor: every module and class namespace pydoctor builds is compared name by name with vars()/inspect of the same generated package imported by CPython in a fresh subprocess',
        text='Exploration with CPython as reference. Generated importable packages in the agreed subset (taken if/try/with/for/while bodies including __name__ comparisons other than the __main__ guard, decorators, old-style wrapping, property setters, attribute docstrings, nested classes, many docstring layouts, with function-local and __main__-guarded definitions as negative controls) are imported by the interpreter and analysed by pydoctor; missing, invented or duplicated names, kinds, coroutine flags, cleaned docstrings and inferred literal types are compared for every name.',
        note='Import-bound names (known to the generator), interpreter dunders, the harness prelude and loop targets are outside the comparison; projects CPython cannot import are discarded and counted.',
        ref='4/C03'),
    'C04': dict(
        technique='reference-model monitor: Documentable.resolveName for every run-time-bound name (plain and dotted, from module and class scopes) compared with the object CPython binds, joined through globally unique definition names',
        text='Exploration with CPython as reference. In generated acyclic multi-package projects every definition has a unique name, so the object a name denotes at run time (__module__/__qualname__) identifies one spec item; every name bound in every module and class namespace, every module-global seen from class bodies, and dotted chains through module aliases and classes are resolved by pydoctor and compared. Names imported (plain, aliased, relative, star) directly from the defining module or reached through a module alias must resolve. Names bound by a package but not by its submodule must not resolve from the submodule; two roots are analysed in both orders; directed spec-free projects cover dotted names whose first component is shadowed locally and multi-name imports of submodules from their package. A wrong answer is credited to the known star-import-in-progress mechanism only if the sources contain the import cycle.',
        note='None is allowed outside the must-resolve clause; names Python would not bind are outside the quantifier.',
        ref='4/C04'),
    'C05': dict(
        technique='reference-model monitor: Class.mro/find/docsources/inherited tables/override notes compared with CPython type() built from the same source, exhaustive over all hierarchies of <=5 classes',
        text='Exploration with CPython itself as the reference model. The same generated source is executed statement by statement by the interpreter (TypeError = inconsistent hierarchy) and analysed by pydoctor; linearisation, inconsistency reports (recorded through a System.msg monitor), member lookup, inherited docstrings, inherited-member tables and "overrides" notes are compared for every class. The space the property names (every ordered choice of bases, <=5 classes) is enumerated completely; n=6 and multi-module/generic hierarchies are sampled. Every random hierarchy is run again with a further module re-exporting a subset of its classes in an order of its own (moved classes are re-registered in that order); whole generated projects under three processing orders and corpus packages are judged against type() over dummy classes mirroring the resolved base graph; the docstring each method page shows is rendered base classes first and its owner read off the text.',
        note='Trusts CPython 3.12 type() and the generated member layout; classes that CPython cannot build because an earlier class was refused are not judged; explicit typing.Generic[T] bases are generated only where typing does not rewrite the bases at run time.',
        ref='4/C05'),
    'C14': dict(
        technique='reference-model monitor: text of the real pages.format_signature is parsed back by CPython as "def f<text>: pass" and compared parameter by parameter with the source AST; exhaustive over parameter layouts; Function.signature structure checked alongside',
        text='Exploration with CPython\'s parser as reader of the displayed signature. Modules of generated definitions (functions, methods, async, overload sets) are analysed by pydoctor; every displayed signature is flattened to text, wrapped as a def and parsed; parameter names, order, kinds, separators, default placement, default/annotation expressions (string annotations unquoted, -> None omitted) and the per-overload signatures are compared with the source. All layouts of <=3 (quick) / <=4 (thorough) parameters are enumerated; longer signatures with generated expressions are sampled.',
        note='Trusts ast.parse and vf/ref/exprnorm.py; expression defects already listed for C15 are attributed by the same localiser and listed as C14:expr:<mechanism>; defaults cut to one line (marked with the ellipsis) are counted, not judged.',
        ref='4/C14'),
    'C15': dict(
        technique='reference-model monitor: text produced by the real colorize_pyval (block, inline and wrapped/truncated settings) is parsed back by CPython and compared with the source AST after documented-spelling normalisation; mechanism localisation by pattern rewriting',
        text='Exploration with CPython\'s parser as reader of the displayed text. Every depth-2 expression tree (form x hole x inner form), every depth-3 operator chain over all operand positions, every literal leaf kind, re.compile calls and random deeper trees are rendered by the real colouriser under unlimited, inline and small linelen/maxlines settings; complete outputs must read back as the same expression (wrap markers removed), incomplete ones must end in the ellipsis marker. A failing expression is attributed to a known mechanism only if rewriting that syntactic pattern away makes it pass and putting it back makes it fail; anything else is a new violation. Part E places every depth-one form, literal leaf and annotation of the signature pool in each display position of a real module (constant value at module and class level, variable/class-variable/instance-variable annotation, type alias, decorator argument, base-class subscript) and reads back what format_constant_value, type2stan, format_decorators and format_class_signature show. The pool includes values that are shown through the fallback renderer (U+00A0, U+FFFE/U+FFFF).',
        note='Trusts ast.parse/ast.unparse of CPython 3.12 and the normaliser vf/ref/exprnorm.py (quotes, number formatting, set([..]), regex re-spelling compared by parse tree). Five defects are listed as known findings by mechanism.',
        ref='4/C15'),
    'C16': dict(
        technique='generator with ground truth (problems planted at known physical lines) driving the real driver.main in-process; oracle over the recorded message log (M-MSG wrapper around System.msg as shadow counter), the printed lines and the exit status; metamorphic shift-by-k relation between two runs of the same module',
        text='Exploration. Generated modules carry unresolvable cross-references, markup errors (fatal and non-fatal), unknown fields, documented non-existent parameters, unsplittable consolidated fields and unrenderable displayed constants at known lines, in module/class/function/method/attribute docstrings (also inherited through a subclass in a second file), in four docformats and seven physical layouts. Every message that names a planted problem must carry the planting file and an admissible line; the same module shifted by k lines must shift each report by k; System.violations must equal the number of counted messages and what is printed; the exit status is compared with the generator\'s ground truth (3 iff -W and something was reported, else 2 iff something unparsable was planted, else 0). Planted problems include ambiguous references, unreadable type specifications, well-formed consolidated lists with broken references, field bodies starting below the field marker, and definitions living in a package that re-exports them.',
        note='Docstrings with line continuations or \\n escapes are outside the generator (documented limitation of the line approximation). Messages the generator did not plant (duplicate parameter documentation, the newfield artefact of consolidated fields) are counted, not judged. One defect pinned by an existing doctest is a known finding.',
        ref='4/C16'),
    'C17': dict(
        technique='round trip with two independent readers (pydoctor SphinxInventory, Sphinx InventoryFile) against an independent page-layout reference, plus structured byte/line fuzzing of SphinxInventory.update with metamorphic "other lines unaffected / dropped lines reported" oracles',
        text='Exploration. Written inventories of a fixture (non-ASCII, nested, hidden, duplicate and root-named objects), generated projects and real packages are loaded by both readers and compared entry by entry with the visible documented objects and an independent statement of the URL layout. 160k (quick) / 2M (thorough) structured fuzz inputs and 32k / 400k single-line corruptions of valid inventories are fed to the real update(): it must not raise, a previously loaded inventory and the other lines must resolve unchanged, and a line that disappears must have been reported. Payloads also arrive in other container formats (gzip, bz2, lzma, nested zlib), whole and cut short.',
        note='Sphinx 9.1 is the second reader; zlib/UTF-8 are the interpreter\'s; a corrupted line that still parses under another name or a non-py domain counts as usable/ignorable as the reader defines it.',
        ref='4/C17'),
    'C18': dict(
        technique='differential monitor between separate processes: the real CLI entry point is run in fresh interpreters under varied PYTHONHASHSEED, directory listing order (os.listdir/os.scandir/Path.iterdir reordered in the child by a shim) and fresh/reused output directory; output trees compared by per-file digest',
        text='Exploration over schedules/configurations/histories. Generated projects (one or several roots, with and without an explicit project name, several docformats) and real packages are rendered by `python shim ...` = pydoctor.driver.main in a fresh process under 6 (quick) / 12 (thorough) configurations each; every file of every output tree is hashed and all trees of a project must have one digest. Rendering options (sidebar depths, theme, member order) vary per project, the build time comes from --buildtime or from SOURCE_DATE_EPOCH in {0, 1, 86399, 2020, 2100} and index.html must carry exactly the requested time. The first differing file and line are kept as witness.',
        note='Build time fixed by --buildtime or SOURCE_DATE_EPOCH; the order of the roots on the command line is part of the input; intersphinx off.',
        ref='4/C18'),
    'C19': dict(
        technique='trace monitor: every visit/depart dispatched through visitor._BaseVisitor is recorded (wrapped from the harness) and checked offline by a stack automaton and against an executable reading of the documented contract; exhaustive over trees<=4 x prunings x extension timings; builder scope-stack invariant hooked after processModuleAST',
        text='Exploration. Event traces of the real Visitor.walk/walkabout are recorded at the dispatch boundary and compared, per visitor, with the trace the documented contract requires, and run through a balance/nesting/order automaton. The bounded space of the property (all trees of <=4 nodes x 5^n pruning assignments x 16 timing subsets, both traversals) is completed on every run; random larger trees are also walked by a visitor that already walked once and received part of its extensions afterwards (ExtList.add); the real ASTBuilder with its real extensions plus four recording extensions is traced on real packages and generated modules, and its scope stack is checked after every module.',
        note='The contract is the one in the docstrings of pydoctor/visitor.py as transcribed in vf/ref/visitor_ref.py; prunings raised by extensions are outside the statement; visits made through generic_visit are visit-only by design.',
        ref='4/C19'),
    'C20': dict(
        technique='differential monitor between the two front doors of the real option parser (Options.from_args with flags vs with a generated pyproject.toml / setup.cfg / pydoctor.ini in the working directory), with the accepting parser observed through wrapped TomlConfigParser/IniConfigParser.parse, plus quoting round trips exhaustive over a quoting-relevant alphabet',
        text='Exploration. Every action of the real argument parser is enumerated at run time; for each, representative and adversarial values are written in every spelling the three file formats document and the resulting Options object is compared field by field with the command-line equivalent (same directory, file absent). Command-line-over-file override, accumulation order of repeatable options, unknown keys (warning, no abort, no effect) and the round trip of every string of length<=3/4 through the files and <=4/5 through unquote_str are checked. tomllib is used to attribute disagreements caused by the third-party toml parser.',
        note='INI syntax is configparser with default options as the manual states (%% for a percent sign, full-line comments); precedence among several files and invalid values that have no command-line equivalent are counted but not judged because the statement does not cover them.',
        ref='4/C20'),
}

NOT_APPLICABLE = {
}

ALL = [f'C{i:02d}' for i in range(1, 21)]


def main() -> None:
    checks = []
    for pid in ALL:
        if pid not in CHECKS:
            continue
        c = CHECKS[pid]
        checks.append({
            'property_id': pid,
            'quick_cmd': f'./run {pid} --tier quick',
            'thorough_cmd': f'./run {pid} --tier thorough',
            'evidence_file': f'/verif/evidence/{pid}.json',
            'replay_cmd_template': f'./run {pid} --replay {{path}}',
            'engine': 'vf',
            'level_claimed': {'category': c.get('category', 'exploration'), 'text': c['text'], 'design_ref': f"DESIGN.md section {c['ref']}"},
            'level_note': c['note'],
            'technique': c['technique'],
        })
    na = [{'property_id': pid, 'reason': NOT_APPLICABLE.get(pid, 'check not built yet in this round (planned; see DESIGN.md section 10) - nothing is claimed for it')}
          for pid in ALL if pid not in CHECKS]
    m = {
        'version': 1,
        'setup_cmd': './setup.sh',
        'hooks': {
            'guard': 'PYDOCTOR_VERIF',
            'enable': 'PYDOCTOR_VERIF=1 in the environment of the worker processes (set by vf/core.py); monitors are attached from the harness by wrapping module/class attributes of the code imported from /repo, no rebuild needed',
            'baseline_off_cmd': 'cd /repo && env -u PYDOCTOR_VERIF /venv/bin/python -m pytest -ra -q -p no:cacheprovider --timeout=900 --continue-on-collection-errors',
            'source_commits': [],
            'add_only': True,
        },
        'engines': [{'name': 'vf', 'path': '/verif/vf', 'serves_properties': sorted(CHECKS),
                     'kind_free_text': 'runtime monitoring harness: seeded workload generators, monitors wrapped around the real pydoctor functions, reference models, offline checkers over the output directory; 16 worker subprocesses with CPU-time watchdogs'}],
        'checks': checks,
        'not_applicable': na,
        'notes': 'All checks import pydoctor from /repo\'s working tree at run time (VERIF_REPO overrides for mutant runs). Exit 0 held / 1 violated (VIOLATION line) / 2 inconclusive (a deciding monitor observed too little). Known findings: /verif/known_findings.json, keyed by mechanism.',
    }
    with open(os.path.join(VERIF, 'MANIFEST.json'), 'w') as f:
        json.dump(m, f, indent=1)
        f.write('\n')


if __name__ == '__main__':
    main()
