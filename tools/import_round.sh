#!/bin/bash
# tools/import_round.sh <round number> <ID> [<ID> ...]   -- imports /tmp/seed/<ID>-out<round>/{patch,demo,notes}{1,2} as seeded/<ID>-<2*round-1>, -<2*round>
# (each change is confirmed on a scratch copy; nothing is ever applied to /repo) and removes the sub-agent's worktree
round=$1; shift
cd "$(dirname "$0")/.."
for c in "$@"; do
  for n in 1 2; do
    as=$(( 2 * (round - 1) + n ))
    tools/seed_import.py $c $n --src /tmp/seed/$c-out$round --as $as --checks $c > /tmp/seed/import-$c-$as.log 2>&1
    python3 - <<PY
import json
try:
    d=json.load(open('/verif/seeded/$c-$as/meta.json'))
    print('$c-$as', {k:v for k,v in d.items() if k in('demo_pristine_exit','demo_patched_exit','tests_same_as_baseline')}, json.dumps(d.get('checks'))[:260])
except Exception as e:
    print('$c-$as NOT STORED', e); print(open('/tmp/seed/import-$c-$as.log').read()[-500:])
PY
  done
  git -C /repo worktree remove --force /tmp/seed/$c 2>/dev/null
done
