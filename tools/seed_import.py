#!/venv/bin/python
"""
Confirm a seeded change produced by an independent sub-agent and file it under /verif/seeded/<ID>-<n>/.

  tools/seed_import.py C13 1 [--checks C13,C12] [--src /tmp/seed/C13-out]

Steps (all on a scratch copy of /repo outside /repo and /verif, removed afterwards):
  1. demo on the pristine copy must exit 0;  2. patch must apply;  3. demo on the patched copy must exit 1;
  4. the repository's test-suite on the patched copy must have the baseline's pass/fail set;
  5. the named checks are run against the patched copy (VERIF_REPO) and their verdicts recorded in meta.json.
"""
import argparse
import json
import os
import shutil
import subprocess
import sys
import tempfile

VERIF = os.path.dirname(os.path.dirname(os.path.abspath(__file__)))


def main() -> int:
    ap = argparse.ArgumentParser()
    ap.add_argument('prop')
    ap.add_argument('n')
    ap.add_argument('--checks')
    ap.add_argument('--src')
    ap.add_argument('--tier', default='quick')
    ap.add_argument('--as', dest='as_n', help='store under seeded/<ID>-<AS> instead of <ID>-<n> (later seeding rounds)')
    a = ap.parse_args()
    src = a.src or f'/tmp/seed/{a.prop}-out'
    patch, demo, notes = (os.path.join(src, f'{x}{a.n}.{e}') for x, e in (('patch', 'diff'), ('demo', 'py'), ('notes', 'md')))
    scratch = tempfile.mkdtemp(prefix='vfseed-')
    dst = os.path.join(scratch, 'repo')
    meta = {'property': a.prop, 'source': 'independent sub-agent given only the property text and a scratch worktree'}
    try:
        subprocess.run(['rsync', '-a', '--exclude', '.git', '--exclude', '__pycache__', '--exclude', 'apidocs', '/repo/', dst + '/'], check=True)
        env = dict(os.environ, PYTHONPATH=dst, PYTHONDONTWRITEBYTECODE='1')
        env.pop('VERIF_REPO', None)
        r0 = subprocess.run(['/venv/bin/python', demo], cwd=scratch, env=env, capture_output=True, text=True, timeout=600)
        meta['demo_pristine_exit'] = r0.returncode
        rp = subprocess.run(['patch', '-p1', '-d', dst, '-i', patch], capture_output=True, text=True)
        if rp.returncode != 0:
            print('patch does not apply to current /repo:', rp.stdout[-500:])
            return 3
        r1 = subprocess.run(['/venv/bin/python', demo], cwd=scratch, env=env, capture_output=True, text=True, timeout=600)
        meta['demo_patched_exit'] = r1.returncode
        meta['demo_patched_output'] = (r1.stdout + r1.stderr)[-800:]
        rt = subprocess.run(['/venv/bin/python', '-m', 'pytest', '-q', '-p', 'no:cacheprovider', '-n', '12', '--timeout=900', 'pydoctor'],
                            cwd=dst, env=env, capture_output=True, text=True)
        failed = sorted(l.split(' ')[1] for l in rt.stdout.splitlines() if l.startswith('FAILED '))
        base = set(open(os.path.join(VERIF, 'tools', 'baseline_failures.txt')).read().split())
        extra = [f for f in failed if f not in base]
        missing = [f for f in base if f not in failed]
        meta['tests'] = rt.stdout.strip().splitlines()[-1] if rt.stdout.strip() else ''
        meta['tests_same_as_baseline'] = not extra and not missing and '1322 passed' in meta['tests']
        checks = (a.checks or a.prop).split(',')
        meta['checks'] = {}
        for c in checks:
            rc = subprocess.run([os.path.join(VERIF, 'run'), c, '--tier', a.tier], cwd=VERIF, env=dict(os.environ, VERIF_REPO=dst, VERIF_EVIDENCE_DIR=os.path.join(scratch, 'evidence'), VERIF_REPLAY_DIR=os.path.join(scratch, 'replays')),
                                capture_output=True, text=True)
            keys = sorted({l.split('key=')[1].split(' ')[0] for l in rc.stdout.splitlines() if l.strip().startswith('key=')})
            meta['checks'][c] = {'tier': a.tier, 'exit': rc.returncode, 'keys': keys}
        ok = meta['demo_pristine_exit'] == 0 and meta['demo_patched_exit'] == 1 and meta['tests_same_as_baseline']
        meta['confirmed'] = ok
        print(json.dumps(meta, indent=1))
        if ok:
            out = os.path.join(VERIF, 'seeded', f'{a.prop}-{a.as_n or a.n}')
            os.makedirs(out, exist_ok=True)
            shutil.copy(patch, os.path.join(out, 'patch.diff'))
            shutil.copy(demo, os.path.join(out, 'demo.py'))
            if os.path.exists(notes):
                meta['needs'] = open(notes).read()
            meta['ran'] = ['demo.py on pristine scratch copy (exit 0) and on patched copy (exit 1)',
                           'pytest -n 12 pydoctor on patched copy: same pass/fail set as baseline',
                           f'./run <check> --tier {a.tier} with VERIF_REPO=<patched copy>']
            json.dump(meta, open(os.path.join(out, 'meta.json'), 'w'), indent=1)
        return 0 if ok else 1
    finally:
        shutil.rmtree(scratch, ignore_errors=True)
        subprocess.run(['git', 'checkout', '--', 'evidence'], cwd=VERIF, capture_output=True)


if __name__ == '__main__':
    sys.exit(main())
