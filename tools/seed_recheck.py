#!/venv/bin/python
"""
Re-run the checks against stored seeded changes (each applied to a scratch copy of /repo, never to /repo) and
update seeded/<ID>-<n>/meta.json with the current verdicts.

  tools/seed_recheck.py [C03-3 C04 ...]        (no argument: all; an ID selects all its seeds)
  --thorough-if-missed   run the thorough tier when the quick tier does not catch the change
  --with C13             also run another property's check against the change (a change may break more than the property it was written for)
"""
import argparse
import glob
import json
import os
import shutil
import subprocess
import sys
import tempfile

VERIF = os.path.dirname(os.path.dirname(os.path.abspath(__file__)))


def main() -> int:
    ap = argparse.ArgumentParser()
    ap.add_argument('which', nargs='*')
    ap.add_argument('--thorough-if-missed', action='store_true')
    ap.add_argument('--with', dest='extra', action='append', default=[], help='also run this check (of another property) against the change')
    a = ap.parse_args()
    dirs = sorted(glob.glob(os.path.join(VERIF, 'seeded', '*-*')))
    if a.which:
        dirs = [d for d in dirs if any(os.path.basename(d) == w or os.path.basename(d).startswith(w + '-') for w in a.which)]
    missed = 0
    for d in dirs:
        name = os.path.basename(d)
        prop = name.split('-')[0]
        meta = json.load(open(os.path.join(d, 'meta.json')))
        scratch = tempfile.mkdtemp(prefix='vfseedre-')
        dst = os.path.join(scratch, 'repo')
        try:
            subprocess.run(['rsync', '-a', '--exclude', '.git', '--exclude', '__pycache__', '--exclude', 'apidocs', '/repo/', dst + '/'], check=True)
            rp = subprocess.run(['patch', '-p1', '-d', dst, '-i', os.path.join(d, 'patch.diff')], capture_output=True, text=True)
            if rp.returncode != 0:
                print(f'{name}: PATCH DOES NOT APPLY to the current tree')
                meta.setdefault('checks', {})[prop] = {'tier': 'quick', 'exit': None, 'keys': [], 'note': 'patch does not apply to the current tree'}
                missed += 1
            else:
                for tier in (['quick', 'thorough'] if a.thorough_if_missed else ['quick']):
                    env = dict(os.environ, VERIF_REPO=dst, VERIF_EVIDENCE_DIR=os.path.join(scratch, 'evidence'), VERIF_REPLAY_DIR=os.path.join(scratch, 'replays'))
                    rc = subprocess.run([os.path.join(VERIF, 'run'), prop, '--tier', tier], cwd=VERIF, env=env, capture_output=True, text=True)
                    keys = sorted({l.split('key=')[1].split(' ')[0] for l in rc.stdout.splitlines() if l.strip().startswith('key=')})
                    meta.setdefault('checks', {})[prop] = {'tier': tier, 'exit': rc.returncode, 'keys': keys[:12]}
                    if rc.returncode == 1:
                        break
                print(f"{name}: {meta['checks'][prop]['tier']} exit={meta['checks'][prop]['exit']} {meta['checks'][prop]['keys'][:3]}")
                for extra in a.extra:
                    env = dict(os.environ, VERIF_REPO=dst, VERIF_EVIDENCE_DIR=os.path.join(scratch, 'evidence'), VERIF_REPLAY_DIR=os.path.join(scratch, 'replays'))
                    rc = subprocess.run([os.path.join(VERIF, 'run'), extra, '--tier', 'quick'], cwd=VERIF, env=env, capture_output=True, text=True)
                    keys = sorted({l.split('key=')[1].split(' ')[0] for l in rc.stdout.splitlines() if l.strip().startswith('key=')})
                    meta['checks'][extra] = {'tier': 'quick', 'exit': rc.returncode, 'keys': keys[:12]}
                    print(f"{name}: also {extra}: exit={rc.returncode} {keys[:3]}")
                if not any(c.get('exit') == 1 for c in meta['checks'].values()):
                    missed += 1
            json.dump(meta, open(os.path.join(d, 'meta.json'), 'w'), indent=1)
        finally:
            shutil.rmtree(scratch, ignore_errors=True)
    print(f'{len(dirs)} seeded changes, {missed} not caught')
    return 0 if not missed else 1


if __name__ == '__main__':
    sys.exit(main())
