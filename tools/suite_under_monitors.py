#!/venv/bin/python
"""
Run the repository's own test-suite with the registry monitor (M-REG) and the builder scope-stack check switched on
(vf/pytest_plugin.py) and summarise what the monitors observed, grouped by rule.  An extra workload, not a registered check:
  tools/suite_under_monitors.py [pytest args]
"""
import glob
import json
import os
import subprocess
import sys
import tempfile

VERIF = os.path.dirname(os.path.dirname(os.path.abspath(__file__)))
REPO = os.environ.get('VERIF_REPO', '/repo')


def main() -> int:
    out = tempfile.mktemp(prefix='vfsuite-')
    env = dict(os.environ, PYTHONPATH=f'{REPO}:{VERIF}:{VERIF}/.deps', VF_SUITE_OUT=out, PYTHONDONTWRITEBYTECODE='1')
    p = subprocess.run(['/venv/bin/python', '-m', 'pytest', '-q', '-p', 'no:cacheprovider', '-p', 'vf.pytest_plugin', '-n', '12', '--timeout=900'] + (sys.argv[1:] or ['pydoctor']),
                       cwd=REPO, env=env, capture_output=True, text=True)
    print(p.stdout.strip().splitlines()[-1] if p.stdout.strip() else p.stderr[-500:])
    total = {'tests': 0, 'systems_checked': 0, 'objects': 0, 'by_rule': {}, 'examples': {}, 'builder_stack': []}
    for f in glob.glob(out + '.*'):
        d = json.load(open(f))
        os.remove(f)
        for k in ('tests', 'systems_checked', 'objects'):
            total[k] += d[k]
        for r, n in d['by_rule'].items():
            total['by_rule'][r] = total['by_rule'].get(r, 0) + n
        for r, ex in d['examples'].items():
            total['examples'].setdefault(r, []).extend(ex[:2])
        total['builder_stack'] += d['builder_stack']
    print(f"tests={total['tests']} systems checked at quiescence={total['systems_checked']} objects={total['objects']}")
    print('builder scope stack not empty after a module:', len(total['builder_stack']), total['builder_stack'][:3])
    for r, n in sorted(total['by_rule'].items()):
        print(f'  {r}: {n}')
        for ex in total['examples'][r][:2]:
            print(f"      {ex['test']}: {ex['message'][:200]}")
    return 0


if __name__ == '__main__':
    sys.exit(main())
