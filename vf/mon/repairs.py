"""
Counterfactual repairs used only to *attribute* a violation to a known mechanism: a known finding is credited
with a violation only if repairing exactly that mechanism (as a wrapper around the real code) makes the
violation disappear when the same case is re-run. Nothing here is active during the judging runs.
"""
from __future__ import annotations

import contextlib
from typing import Any, Iterator, Optional


def _follow_aliases(system: Any, full: str, depth: int = 0) -> Optional[str]:
    """resolve a possibly outdated qualified name by following, at each step, the alias a re-export move left behind"""
    from pydoctor import model
    obj: Any = None
    for p in full.split('.'):
        cand = f'{obj.fullName()}.{p}' if obj is not None else p
        o = system.objForFullName(cand)
        if o is None and isinstance(obj, model.CanContainImportsDocumentable) and p not in obj.contents:
            moved = obj._localNameToFullName_map.get(p)
            if moved is not None and moved != cand:
                o = system.objForFullName(moved)
                if o is None and depth < 4:
                    # an alias of an alias (al = C; C moved): keep following
                    again = _follow_aliases(system, moved, depth + 1)
                    o = system.objForFullName(again) if again else None
        if o is None:
            return None
        obj = o
    return str(obj.fullName()) if obj is not None else None


@contextlib.contextmanager
def stale_import_after_move() -> Iterator[None]:
    """expandName additionally follows the alias left at the old location of a moved object
    (the repair that pydoctor/test/test_packages.py::test_reparenting_follows_aliases currently forbids)."""
    from pydoctor import model
    orig = model.Documentable.expandName

    def expandName(self: Any, name: str) -> str:
        full = orig(self, name)
        if self.system.objForFullName(full) is None:
            fixed = _follow_aliases(self.system, full)
            if fixed is not None:
                return fixed
        return str(full)
    model.Documentable.expandName = expandName  # type: ignore[method-assign]
    try:
        yield
    finally:
        model.Documentable.expandName = orig  # type: ignore[method-assign]
