"""
M-TRACE: records every visit/depart call dispatched through pydoctor.visitor._BaseVisitor (main
visitors and extensions alike) by wrapping the two class attributes from the harness. The wrappers
record and delegate; pruning exceptions raised by the callee are recorded and re-raised unchanged.
"""
from __future__ import annotations

from typing import Any, Callable, List, Optional, Tuple


class Recorder:
    def __init__(self) -> None:
        self.events: List[List[Any]] = []   # (visitor, kind, node, exc name, generic depth)
        self.generic_depth = 0
        self.installed = False
        self.calls = 0

    def install(self) -> None:
        from pydoctor import visitor, astutils
        if self.installed:
            return
        rec = self
        orig_visit = visitor._BaseVisitor.visit
        orig_depart = visitor._BaseVisitor.depart
        orig_generic = astutils.NodeVisitor.generic_visit

        def visit(self: Any, ob: Any) -> None:
            rec.calls += 1
            ev = [self, 'visit', ob, None, rec.generic_depth]
            rec.events.append(ev)          # recorded at call time (call order), outcome filled in at return
            try:
                orig_visit(self, ob)
            except visitor.Visitor._TreePruningException as e:
                ev[3] = type(e).__name__
                raise

        def depart(self: Any, ob: Any) -> None:
            rec.calls += 1
            ev = [self, 'depart', ob, None, rec.generic_depth]
            rec.events.append(ev)
            try:
                orig_depart(self, ob)
            except visitor.Visitor._TreePruningException as e:
                ev[3] = type(e).__name__
                raise

        def generic_visit(self: Any, node: Any) -> None:
            rec.generic_depth += 1
            try:
                orig_generic(self, node)
            finally:
                rec.generic_depth -= 1

        visitor._BaseVisitor.visit = visit            # type: ignore[method-assign]
        visitor._BaseVisitor.depart = depart          # type: ignore[method-assign]
        astutils.NodeVisitor.generic_visit = generic_visit  # type: ignore[method-assign]
        self._undo: Callable[[], None] = lambda: (setattr(visitor._BaseVisitor, 'visit', orig_visit),
                                                  setattr(visitor._BaseVisitor, 'depart', orig_depart),
                                                  setattr(astutils.NodeVisitor, 'generic_visit', orig_generic))
        self.installed = True

    def reset(self) -> None:
        self.events = []
        self.generic_depth = 0
