"""
M-SCHED: schedule injection at the boundary. The schedule of an analysis is the content of
System.unprocessed_modules when process() starts. Reachable orders are exactly: roots in any order; inside a
package its own __init__ first, then its children (modules and sub-packages, each sub-package contiguous) in any
order -- what addPackage's sorted(iterdir()) yields under renaming of the modules. permute() rewrites the list in
place to another reachable order; record() wraps System.processModule to log the realised order.
"""
from __future__ import annotations

from typing import Any, Dict, List


def reachable_order(system: Any, r: Any) -> List[Any]:
    mods = list(system.unprocessed_modules)
    children: Dict[int, List[Any]] = {}
    roots = []
    for m in mods:
        if m.parent is None:
            roots.append(m)
        else:
            children.setdefault(id(m.parent), []).append(m)
    out: List[Any] = []

    def emit(m: Any) -> None:
        out.append(m)
        kids = list(children.get(id(m), []))
        r.shuffle(kids)
        for k in kids:
            emit(k)
    r.shuffle(roots)
    for m in roots:
        emit(m)
    # modules whose parent is not itself unprocessed (prepended packages): keep at the end in shuffled order
    rest = [m for m in mods if not any(m is x for x in out)]
    r.shuffle(rest)
    return out + rest


def permute(system: Any, r: Any) -> None:
    new = reachable_order(system, r)
    assert len(new) == len(system.unprocessed_modules)
    system.unprocessed_modules[:] = new


def all_orders(system: Any, limit: int = 200) -> List[List[str]]:
    """every reachable order (as lists of module full names), up to `limit`"""
    import itertools
    mods = list(system.unprocessed_modules)
    children: Dict[int, List[Any]] = {}
    roots = []
    for m in mods:
        if m.parent is None:
            roots.append(m)
        else:
            children.setdefault(id(m.parent), []).append(m)

    def orders(m: Any) -> List[List[Any]]:
        kids = children.get(id(m), [])
        res: List[List[Any]] = []
        for perm in itertools.permutations(kids):
            subs = [orders(k) for k in perm]
            for combo in itertools.product(*subs):
                seq = [m]
                for c in combo:
                    seq.extend(c)
                res.append(seq)
                if len(res) > limit:
                    return res
        return res or [[m]]
    out: List[List[str]] = []
    for rperm in itertools.permutations(roots):
        subs = [orders(x) for x in rperm]
        for combo in itertools.product(*subs):
            seq: List[Any] = []
            for c in combo:
                seq.extend(c)
            out.append([x.fullName() for x in seq])
            if len(out) >= limit:
                return out
    return out


def apply_order(system: Any, names: List[str]) -> None:
    by = {m.fullName(): m for m in system.unprocessed_modules}
    system.unprocessed_modules[:] = [by[n] for n in names]


def record(system: Any) -> List[str]:
    """wrap this system's processModule to log the order modules are actually processed in"""
    log: List[str] = []
    orig = system.processModule

    def processModule(mod: Any) -> None:
        log.append(mod.fullName())
        return orig(mod)
    system.processModule = processModule
    return log


_cycle_monitors = False


def install_cycle_monitors() -> None:
    """observe import cycles as the analysis meets them: system._vf_cycle_hit, system._vf_star_in_progress"""
    global _cycle_monitors
    if _cycle_monitors:
        return
    _cycle_monitors = True
    from typing import Any
    # M-SCHED, cycle observation: a module handed out while it is still being processed means the analysis
    # ran into an import cycle under this schedule
    from pydoctor import model
    orig = model.System.getProcessedModule

    def getProcessedModule(self: Any, modname: str) -> Any:
        mod = orig(self, modname)
        if mod is not None and mod.state is model.ProcessingState.PROCESSING:
            self.__dict__['_vf_cycle_hit'] = self.__dict__.get('_vf_cycle_hit', 0) + 1
        return mod
    model.System.getProcessedModule = getProcessedModule  # type: ignore[method-assign]
    from pydoctor import astbuilder
    orig_all = astbuilder.ModuleVistor._importAll

    def _importAll(self: Any, modname: str) -> None:
        mod = self.system.allobjects.get(modname)
        if isinstance(mod, model.Module) and mod.state is model.ProcessingState.PROCESSING:
            self.system.__dict__.setdefault('_vf_star_in_progress', []).append((self.builder.current.module.fullName(), modname))
            # what the module had defined by then: only names defined later are lost to this import
            self.system.__dict__.setdefault('_vf_in_progress_bound', {})[(self.builder.current.module.fullName(), modname)] = \
                set(mod.contents)
        return orig_all(self, modname)
    astbuilder.ModuleVistor._importAll = _importAll  # type: ignore[method-assign]
    orig_names = astbuilder.ModuleVistor._importNames

    def _importNames(self: Any, modname: str, names: Any) -> None:
        mod = self.system.allobjects.get(modname)
        if isinstance(mod, model.Module) and mod.state is model.ProcessingState.PROCESSING:
            self.system.__dict__.setdefault('_vf_from_in_progress', []).append((self.builder.current.module.fullName(), modname))
            key = (self.builder.current.module.fullName(), modname)
            bound = set(mod.contents)        # (what the module had *defined*: a name it merely imported so far is not the object to move)
            prev = self.system.__dict__.setdefault('_vf_in_progress_bound', {}).get(key)
            self.system.__dict__['_vf_in_progress_bound'][key] = bound if prev is None else (prev & bound)
        return orig_names(self, modname, names)
    astbuilder.ModuleVistor._importNames = _importNames  # type: ignore[method-assign]
