"""M-MSG: records every message passed to System.msg (section, text, thresh, once) on the system object itself."""
from __future__ import annotations

import re
from typing import Any, List, Optional, Tuple

_installed = False
RE_LOC = re.compile(r'^(?P<path>.*?):(?P<line>\d+|\?\?\?): (?P<text>.*)$', re.S)


def install() -> None:
    global _installed
    if _installed:
        return
    from pydoctor import model
    orig = model.System.msg

    def msg(self: Any, section: str, msg: str, thresh: int = 0, topthresh: int = 100, nonl: bool = False,
            wantsnl: bool = True, once: bool = False) -> None:
        log = self.__dict__.setdefault('_vf_msgs', [])
        dup = once and (section, msg) in self.once_msgs
        log.append((section, msg, thresh, once, dup))
        return orig(self, section, msg, thresh=thresh, topthresh=topthresh, nonl=nonl, wantsnl=wantsnl, once=once)
    model.System.msg = msg  # type: ignore[method-assign]
    _installed = True


def messages(system: Any) -> List[Tuple[str, str, int, bool, bool]]:
    return list(system.__dict__.get('_vf_msgs', []))


def parse_loc(text: str) -> Optional[Tuple[str, Optional[int], str]]:
    m = RE_LOC.match(text)
    if not m:
        return None
    line = None if m.group('line') == '???' else int(m.group('line'))
    return m.group('path'), line, m.group('text')
