"""
M-REG: invariant monitors on the object registry of a pydoctor System.

* hooks (icontract postconditions with OLD snapshots, attached from the harness to the real methods):
  System.addObject, System.handleDuplicate, Documentable.reparent -- the touched subtree is checked when each returns
  (the state other code can observe); transient states inside a call are not judged.
* check_system(): the whole-system invariants R1..R9 at quiescence (after System.process()).

Condition functions record into the system's `_vf_reg` list and return True: a monitor never changes what the
program under observation does.
"""
from __future__ import annotations

import re
from typing import Any, Dict, List, Optional, Tuple

SUPERSEDED = re.compile(r'^(.*) (\d+)$')
_installed = False
counters: Dict[str, int] = {}


def _c(name: str, n: int = 1) -> None:
    counters[name] = counters.get(name, 0) + n


def _log(system: Any) -> List[Tuple[str, str]]:
    return system.__dict__.setdefault('_vf_reg', [])  # type: ignore[no-any-return]


def is_superseded(o: Any) -> bool:
    # an older definition renamed "<name> <i>" by handleDuplicate: it is no longer an entry of its parent
    # (the later definition took its place -- and may itself have been moved elsewhere by a re-export since)
    m = SUPERSEDED.match(o.name)
    if not m or o.parent is None:
        return False
    return o.parent.contents.get(o.name) is not o


def _subtree_ok(system: Any, o: Any, where: str) -> None:
    """after a mutation returned: o and everything below it is registered under its current name"""
    stack = [o]
    n = 0
    while stack:
        x = stack.pop()
        n += 1
        got = system.allobjects.get(x.fullName())
        if got is not x:
            _log(system).append(('R1-subtree', f'after {where}: {x!r} is not registered under {x.fullName()!r} (found {got!r})'))
        stack.extend(x.contents.values())
        if n > 5000:
            break
    _c('subtree_objects_checked', n)


def install() -> None:
    global _installed
    if _installed:
        return
    import icontract
    from pydoctor import model

    class MonitorBroken(Exception):
        pass

    # --- Documentable.reparent -----------------------------------------------------------------
    def snap_old_name(self: Any) -> str:
        return str(self.fullName())

    def snap_old_parent(self: Any) -> Any:
        return self.parent

    def reparent_post(self: Any, new_parent: Any, new_name: str, OLD: Any) -> bool:
        system = self.system
        _c('reparent_events')
        if self.parent is not new_parent or self.name != new_name:
            _log(system).append(('reparent-target', f'reparent({new_parent!r}, {new_name!r}) left {self!r} under {self.parent!r}'))
        if new_parent.contents.get(new_name) is not self:
            _log(system).append(('R3-reparent', f'after reparent, {new_parent!r}.contents[{new_name!r}] is {new_parent.contents.get(new_name)!r}, not {self!r}'))
        stale = system.allobjects.get(OLD.old_name)
        if stale is self and OLD.old_name != self.fullName():
            _log(system).append(('R1-reparent-stale', f'after reparent, {self!r} is still registered under its old name {OLD.old_name!r}'))
        if OLD.old_parent is not None and OLD.old_parent is not new_parent:
            for k, v in OLD.old_parent.contents.items():
                if v is self:
                    _log(system).append(('R3-reparent-old-entry', f'after reparent, {self!r} is still an entry {k!r} of its old parent {OLD.old_parent!r}'))
        _subtree_ok(system, self, 'reparent')
        return True

    model.Documentable.reparent = icontract.snapshot(snap_old_name, name='old_name')(  # type: ignore[method-assign]
        icontract.snapshot(snap_old_parent, name='old_parent')(
            icontract.ensure(reparent_post, error=MonitorBroken)(model.Documentable.reparent)))

    # --- System.addObject / handleDuplicate -------------------------------------------------------
    def add_post(self: Any, obj: Any) -> bool:
        _c('addobject_events')
        if self.allobjects.get(obj.fullName()) is not obj:
            _log(self).append(('R1-add', f'after addObject, {obj.fullName()!r} maps to {self.allobjects.get(obj.fullName())!r}, not {obj!r}'))
        if obj.parent is not None and obj.parent.contents.get(obj.name) is not obj:
            _log(self).append(('R3-add', f'after addObject, {obj!r} is not the entry {obj.name!r} of its parent'))
        return True

    model.System.addObject = icontract.ensure(add_post, error=MonitorBroken)(model.System.addObject)  # type: ignore[method-assign]

    def snap_prev(self: Any, obj: Any) -> Any:
        return self.allobjects.get(obj.fullName())

    def dup_post(self: Any, obj: Any, OLD: Any) -> bool:
        _c('duplicate_events')
        prev = OLD.prev
        if prev is not None and prev is not obj:
            if not SUPERSEDED.match(prev.name):
                _log(self).append(('dup-rename', f'after handleDuplicate, the older {prev!r} was not renamed'))
            _subtree_ok(self, prev, 'handleDuplicate (older definition)')
        if self.allobjects.get(obj.fullName()) is not obj:
            _log(self).append(('R1-dup', f'after handleDuplicate, {obj.fullName()!r} maps to {self.allobjects.get(obj.fullName())!r}'))
        return True

    model.System.handleDuplicate = icontract.snapshot(snap_prev, name='prev')(  # type: ignore[method-assign]
        icontract.ensure(dup_post, error=MonitorBroken)(model.System.handleDuplicate))

    # --- remember every module ever created (a module can lose its registry entry later)
    orig_analyze = model.System.analyzeModule

    def analyzeModule(self: Any, *a: Any, **k: Any) -> Any:
        mod = orig_analyze(self, *a, **k)
        self.__dict__.setdefault('_vf_created_modules', []).append(mod)
        return mod
    model.System.analyzeModule = analyzeModule  # type: ignore[method-assign]

    # --- count post-processing passes (R7 is only judged for systems post-processed once) -----------------
    orig_post = model.System.postProcess

    def postProcess(self: Any) -> None:
        self.__dict__['_vf_postprocess'] = self.__dict__.get('_vf_postprocess', 0) + 1
        return orig_post(self)
    model.System.postProcess = postProcess  # type: ignore[method-assign]
    _installed = True


def _ancestors(o: Any) -> Any:
    p = o.parent
    while p is not None:
        yield p
        p = p.parent


def check_system(system: Any) -> List[Tuple[str, str]]:
    """Whole-system invariants at quiescence. Returns [(rule id, message)] (plus whatever the hooks recorded)."""
    from pydoctor import model
    K = model.DocumentableKind
    out: List[Tuple[str, str]] = list(_log(system))
    allo = system.allobjects
    # reachable set (downwards from the roots)
    reach: Dict[int, Any] = {}
    stack = list(system.rootobjects)
    while stack:
        o = stack.pop()
        if id(o) in reach:
            continue
        reach[id(o)] = o
        stack.extend(o.contents.values())
    # superseded duplicates hang off their parent outside `contents`: reachable if the parent is, and so is their subtree
    changed = True
    while changed:
        changed = False
        for o in allo.values():
            if id(o) not in reach and is_superseded(o) and id(o.parent) in reach:
                stack = [o]
                while stack:
                    x = stack.pop()
                    if id(x) not in reach:
                        reach[id(x)] = x
                        stack.extend(x.contents.values())
                changed = True
    _c('objects_checked', len(allo))
    for k, o in allo.items():
        # R1
        if o.fullName() != k:
            kind = 'R1-superseded-duplicate-key' if (SUPERSEDED.match(o.name) and o.parent is not None and o.name not in o.parent.contents) else 'R1'
            out.append((kind, f'registry key {k!r} holds {o!r} whose qualified name is {o.fullName()!r}'))
        # R3
        sup = is_superseded(o)
        if o.parent is not None:
            if o.parent.contents.get(o.name) is not o and not sup:
                out.append(('R3', f'{o!r} is registered but is not the entry {o.name!r} of its parent {o.parent!r} (entry: {o.parent.contents.get(o.name)!r}) and is not a superseded duplicate'))
        # R4
        if id(o) not in reach:
            # mechanism: which ancestor was cut off, and by what?
            cut = o
            for a in [o] + list(_ancestors(o)):
                if a.parent is not None and a.parent.contents.get(a.name) is not a:
                    cut = a
            usurper = cut.parent.contents.get(cut.name) if cut.parent is not None else None
            if isinstance(cut, model.Module) and usurper is not None and not isinstance(usurper, model.Module):
                out.append(('R4-module-displaced-by-reexported-name', f'{o!r} is registered but unreachable: module {cut!r} was displaced from its package by {usurper!r}, re-exported under the same name'))
            else:
                out.append(('R4', f'{o!r} is registered but cannot be reached from a root through contents (cut at {cut!r})'))
        # R5
        if isinstance(o, model.Function):
            if isinstance(o.parent, model.Class) and o.kind not in (K.METHOD, K.CLASS_METHOD, K.STATIC_METHOD):
                out.append(('R5-function-in-class', f'{o!r} sits directly in a class but has kind {o.kind}'))
            if isinstance(o.parent, model.Module) and o.kind is not K.FUNCTION:
                out.append(('R5-method-in-module', f'{o!r} sits in a module but has kind {o.kind}'))
        if isinstance(o, (model.Function, model.Attribute)) and o.contents:
            out.append(('R5-leaf-with-children', f'{o!r} has children {list(o.contents)[:3]}'))
        if isinstance(o, model.Module) and o.parent is not None and not isinstance(o.parent, model.Package):
            out.append(('R5-module-parent', f'module {o!r} sits in {o.parent!r}, which is not a package'))
        if o.parent is None and not isinstance(o, model.Module):
            out.append(('R5-root', f'{o!r} is a root but not a module'))
    # R2
    # modules that lost their place (and their registry key) to an object re-exported under their name
    displaced = set()
    for o in allo.values():
        for a in _ancestors(o):
            if isinstance(a, model.Module) and allo.get(a.fullName()) is not a:
                displaced.add(a.fullName())
    for m in system.__dict__.get('_vf_created_modules', []):          # (a displaced module may have lost all its members since)
        if allo.get(m.fullName()) is not m and not SUPERSEDED.match(m.name):
            displaced.add(m.fullName())
    for o in reach.values():
        if is_superseded(o) or any(is_superseded(a) for a in _ancestors(o)):
            continue        # registration of superseded definitions is judged by R1
        if allo.get(o.fullName()) is not o:
            if any(a.fullName() in displaced for a in [o] + list(_ancestors(o))):
                # the object lives under a name that a displaced module (and its members) also use: moving one of that module's
                # members deleted the registry key both had
                out.append(('R2-key-shared-with-member-of-displaced-module', f'{o!r} is reachable from a root but the registry maps {o.fullName()!r} to {allo.get(o.fullName())!r}: '
                            f'a module displaced by a re-exported object of the same name had a member of that qualified name'))
            else:
                out.append(('R2', f'{o!r} is reachable from a root but the registry maps {o.fullName()!r} to {allo.get(o.fullName())!r}'))
    for r in system.rootobjects:
        if not isinstance(r, model.Module):
            out.append(('R5-root', f'root {r!r} is not a module'))
    # R6, R7
    once = system.__dict__.get('_vf_postprocess', 1) == 1
    mro_reported = {m[1] for m in system.__dict__.get('_vf_msgs', []) if m[0] == 'mro'}
    classes = [o for o in allo.values() if isinstance(o, model.Class)]
    _c('classes_checked', len(classes))
    for c in classes:
        if c._mro is None:
            continue
        mro = c.mro()
        if not mro or mro[0] is not c:
            out.append(('R6-first', f'{c!r}: linearisation starts with {mro[:1]!r}'))
        reported = any(f':{c.linenumber}:' in t and (c.description in t) for t in mro_reported)
        if not reported:
            for b in c.baseobjects:
                if b is not None and sum(1 for x in mro if x is b) != 1:
                    out.append(('R6-base', f'{c!r}: resolved base {b!r} occurs {sum(1 for x in mro if x is b)}x in its linearisation'))
        if once:
            for b in c.baseobjects:
                if b is not None and sum(1 for x in b.subclasses if x is c) != sum(1 for x in c.baseobjects if x is b):
                    out.append(('R7', f'{b!r} is a base of {c!r} {sum(1 for x in c.baseobjects if x is b)}x but lists it as subclass {sum(1 for x in b.subclasses if x is c)}x'))
            for sc in c.subclasses:
                if not any(x is c for x in sc.baseobjects):
                    out.append(('R7', f'{c!r} lists {sc!r} as subclass but is not among its bases'))
    # R8
    for c in allo.values():
        impl = getattr(c, 'implements_directly', None)
        if impl and once:
            for name in impl:
                iface = allo.get(name)
                if iface is not None and getattr(iface, 'isinterface', False):
                    _c('implements_checked')
                    if not any(x is c for x in getattr(iface, 'implementedby_directly', [])):
                        out.append(('R8', f'{c!r} implements {iface!r}, which does not list it as implementation'))
        if getattr(c, 'isinterface', False) and once:
            for x in getattr(c, 'implementedby_directly', []):
                if c.fullName() not in getattr(x, 'implements_directly', []):
                    out.append(('R8', f'{c!r} lists {x!r} as implementation, which does not declare it'))
    # R9
    pages: Dict[str, Any] = {}
    for o in allo.values():
        if isinstance(o, (model.Module, model.Class)) and o.isVisible and not is_superseded(o):
            u = o.url
            if u in pages and pages[u] is not o:
                out.append(('R9', f'{o!r} and {pages[u]!r} share the page {u!r}'))
            pages[u] = o
    _c('pages_checked', len(pages))
    return out
