"""
M-CRAWL: offline reader of a pydoctor output directory (the event log of a run): pages, links, anchors, listing
entries with their CSS classes, all-documents records, search index references, inventory lines.
Tolerant html.parser mini-DOM for link/anchor extraction; strict expat is used separately by C10.
"""
from __future__ import annotations

import json
import os
import zlib
from html.parser import HTMLParser
from typing import Any, Dict, Iterator, List, Optional, Set, Tuple
from urllib.parse import unquote, urlsplit

VOID = {'area', 'base', 'br', 'col', 'embed', 'hr', 'img', 'input', 'link', 'meta', 'param', 'source', 'track', 'wbr'}


class Node:
    __slots__ = ('tag', 'attrs', 'children', 'parent', 'text')

    def __init__(self, tag: str, attrs: Dict[str, str], parent: Optional['Node']) -> None:
        self.tag = tag
        self.attrs = attrs
        self.children: List[Any] = []
        self.parent = parent

    def iter(self) -> Iterator['Node']:
        stack = [self]
        while stack:
            n = stack.pop()
            yield n
            stack.extend(c for c in reversed(n.children) if isinstance(c, Node))

    def find_all(self, tag: Optional[str] = None, cls: Optional[str] = None) -> Iterator['Node']:
        for n in self.iter():
            if tag is not None and n.tag != tag:
                continue
            if cls is not None and cls not in n.attrs.get('class', '').split():
                continue
            yield n

    def text_content(self) -> str:
        out: List[str] = []
        stack: List[Any] = [self]
        while stack:
            n = stack.pop()
            if isinstance(n, str):
                out.append(n)
            else:
                stack.extend(reversed(n.children))
        return ''.join(out)

    def classes(self) -> List[str]:
        return self.attrs.get('class', '').split()

    def ancestors(self) -> Iterator['Node']:
        p = self.parent
        while p is not None:
            yield p
            p = p.parent


class _Builder(HTMLParser):
    def __init__(self) -> None:
        super().__init__(convert_charrefs=True)
        self.root = Node('#root', {}, None)
        self.cur = self.root

    def handle_starttag(self, tag: str, attrs: List[Tuple[str, Optional[str]]]) -> None:
        n = Node(tag, {k: (v if v is not None else '') for k, v in attrs}, self.cur)
        self.cur.children.append(n)
        if tag not in VOID:
            self.cur = n

    def handle_startendtag(self, tag: str, attrs: List[Tuple[str, Optional[str]]]) -> None:
        n = Node(tag, {k: (v if v is not None else '') for k, v in attrs}, self.cur)
        self.cur.children.append(n)

    def handle_endtag(self, tag: str) -> None:
        p: Optional[Node] = self.cur
        while p is not None and p.tag != tag:
            p = p.parent
        if p is not None and p.parent is not None:
            self.cur = p.parent

    def handle_data(self, data: str) -> None:
        self.cur.children.append(data)


def parse_html(text: str) -> Node:
    b = _Builder()
    b.feed(text)
    b.close()
    return b.root


class Page:
    def __init__(self, name: str, text: str) -> None:
        self.name = name
        self.text = text
        self.dom = parse_html(text)
        self.anchors: Set[str] = set()
        self.links: List[Tuple[str, Node]] = []
        for n in self.dom.iter():
            for a in ('id', 'name'):
                if a in n.attrs and (a == 'id' or n.tag == 'a'):
                    self.anchors.add(n.attrs[a])
            for a in ('href', 'src'):
                if a in n.attrs:
                    self.links.append((n.attrs[a], n))


class Output:
    """everything a run wrote"""

    def __init__(self, outdir: str) -> None:
        self.dir = outdir
        self.files: Set[str] = set()
        for root, dirs, files in os.walk(outdir):
            for f in files:
                self.files.add(os.path.relpath(os.path.join(root, f), outdir))
        self.pages: Dict[str, Page] = {}
        for f in sorted(self.files):
            if f.endswith('.html'):
                try:
                    with open(os.path.join(outdir, f), encoding='utf-8', errors='surrogateescape') as fh:
                        self.pages[f] = Page(f, fh.read())
                except OSError:
                    pass

    # -- link resolution ---------------------------------------------------------------------------
    @staticmethod
    def is_internal(href: str) -> bool:
        if not href or href.startswith(('mailto:', 'javascript:', 'data:')):
            return False
        sp = urlsplit(href)
        return not sp.scheme and not sp.netloc

    def resolve(self, page: str, href: str) -> Tuple[str, Optional[str]]:
        sp = urlsplit(href)
        path = unquote(sp.path)
        target = page if path == '' else os.path.normpath(os.path.join(os.path.dirname(page), path))
        frag = unquote(sp.fragment) if sp.fragment else None
        return target, frag

    def dead_links(self) -> Iterator[Tuple[str, str, str, Node]]:
        """(page, href, why, node) for every internal link that leads nowhere"""
        for pname, page in self.pages.items():
            for href, node in page.links:
                if not self.is_internal(href):
                    continue
                target, frag = self.resolve(pname, href)
                if target not in self.files:
                    yield pname, href, f'file {target!r} was not written', node
                    continue
                if frag and target in self.pages and frag not in self.pages[target].anchors:
                    yield pname, href, f'no anchor {frag!r} in {target!r}', node

    # -- records -------------------------------------------------------------------------------------
    def all_documents(self) -> List[Dict[str, str]]:
        p = self.pages.get('all-documents.html')
        out = []
        if p is None:
            return out
        for li in p.dom.find_all('li'):
            if 'id' in li.attrs and any(isinstance(c, Node) and 'fullName' in c.classes() for c in li.children):
                rec = {'id': li.attrs['id']}
                for c in li.children:
                    if isinstance(c, Node) and c.classes():
                        rec[c.classes()[0]] = c.text_content().strip()
                out.append(rec)
        return out

    def search_refs(self) -> Dict[str, Set[str]]:
        out: Dict[str, Set[str]] = {}
        for f in ('searchindex.json', 'fullsearchindex.json'):
            p = os.path.join(self.dir, f)
            refs: Set[str] = set()
            if os.path.exists(p):
                try:
                    j = json.load(open(p, encoding='utf-8'))
                    for fv in j.get('fieldVectors', []):
                        refs.add(fv[0].split('/', 1)[1])
                except (ValueError, OSError, IndexError):
                    pass
            out[f] = refs
        return out

    def inventory(self) -> List[Tuple[str, str, str]]:
        p = os.path.join(self.dir, 'objects.inv')
        out: List[Tuple[str, str, str]] = []
        if not os.path.exists(p):
            return out
        data = open(p, 'rb').read()
        while data.startswith(b'#'):
            data = data.split(b'\n', 1)[1] if b'\n' in data else b''
        try:
            text = zlib.decompress(data).decode('utf-8')
        except Exception:  # noqa: BLE001
            return out
        for line in text.splitlines():
            parts = line.rsplit(' ', 4)
            if len(parts) == 5:
                out.append((parts[0], parts[1], parts[3]))
        return out

    # -- listing entries -------------------------------------------------------------------------------
    def listing_entries(self) -> Iterator[Tuple[str, str, str, bool, Node]]:
        """(page, producer, target (full name or resolved url), has private marker, node) for every listing entry the
        viewer's public/private toggle acts on: child-table rows, member detail blocks, sidebar items, index items."""
        for pname, page in self.pages.items():
            if pname == 'all-documents.html':
                continue
            for n in page.dom.iter():
                cl = n.classes()
                if n.tag == 'tr' and n.parent is not None and any('children' in a.classes() for a in n.ancestors() if a.tag == 'table'):
                    a = next((x for x in n.find_all('a', 'internal-link')), None)
                    if a is not None:
                        yield pname, 'child-table', self._target(pname, a), 'private' in cl, n
                elif n.tag == 'div' and any(c.startswith('base') for c in cl) and any(isinstance(c, Node) and c.tag == 'a' and 'name' in c.attrs for c in n.children):
                    names = [c.attrs['name'] for c in n.children if isinstance(c, Node) and c.tag == 'a' and 'name' in c.attrs]
                    yield pname, 'member-detail', 'name:' + max(names, key=len), 'private' in cl, n
                elif n.tag == 'li':
                    in_sidebar = any('sidebar' in a.classes() for a in n.ancestors())
                    in_tree = any(a.attrs.get('id') == 'summaryTree' for a in n.ancestors())
                    if in_sidebar and any(isinstance(c, Node) and 'itemName' in c.classes() for c in n.children):
                        a = next((x for x in n.find_all('a', 'internal-link')), None)
                        if a is not None:
                            yield pname, 'sidebar', self._target(pname, a), 'private' in cl, n
                        else:
                            # an item without a link (its target is not linkable): identified by the text it shows
                            item = next((c for c in n.children if isinstance(c, Node) and 'itemName' in c.classes()), None)
                            if item is not None:
                                yield pname, 'sidebar', 'text:' + item.text_content().strip(), 'private' in cl, n
                    elif in_tree:
                        # own link of this item: first internal link not inside a nested list
                        a = None
                        for x in n.find_all('a', 'internal-link'):
                            if not any(y.tag in ('ul',) and y is not n and any(z is n for z in y.ancestors()) for y in x.ancestors()):
                                a = x
                                break
                        if a is not None:
                            yield pname, 'index:' + pname, self._target(pname, a), 'private' in cl, n

    def _target(self, page: str, a: Node) -> str:
        if 'title' in a.attrs and a.attrs['title'] not in ('This module', 'This class', 'This package'):
            return 'name:' + a.attrs['title']
        t, frag = self.resolve(page, a.attrs.get('href', ''))
        return 'url:' + t + ('#' + frag if frag else '')
