"""C11 -- every internal link leads to a page and anchor that exist (offline closed-world link check over the output directory)."""
from __future__ import annotations

from pathlib import Path
from typing import Any, Dict, List
from urllib.parse import unquote

from vf import core
from vf.checks import _site
from vf.mon import registry
from vf.ref import urls

ID = 'C11'
LEVEL = 'exploration'
RULE = ('generated projects exercising inheritance (inherited tables, overrides, subclass lists), inherited docstrings with '
        'cross-references, re-exports, duplicates, hidden/private objects through generated --privacy lists, nested classes, '
        'non-ASCII and root-named modules, one or several roots; options: theme in {classic, base, readthedocs}, sidebar '
        'depths / --no-sidebar, member order, docformat; plus real packages. The complete output directory of the real '
        'driver is crawled: every relative href/src must name a written file and, with a fragment, an id/name present in '
        'it; all-documents url fields and search-index references likewise; every visible module/class must have its page '
        'and every visible member its anchor at the address an independent layout reference gives. Distinct: (project, '
        'option set); non-trivial: the run wrote at least 10 pages.')
ASSUME = ['external links (scheme or //), source links and intersphinx links are ignored', 'fragments compared percent-decoded',
          'a dead link is attributed to a known mechanism by what its target is in the live model (superseded duplicate, hidden object, displaced module)']
DECIDING = {'links_checked': 20000, 'anchors_checked': 3000, 'pages_parsed': 800, 'records_checked': 2000, 'model_objects_checked': 3000, 'option_sets': 8}
CPU_S = 1200
PER = 4


def cases(tier: str, seed: int) -> List[Dict[str, Any]]:
    out: List[Dict[str, Any]] = []
    n = 100 if tier == 'quick' else 2500
    for k in range(0, n, PER):
        out.append({'part': 'G', 'seed': seed, 'k': k, 'n': PER, 'variants': 1 if tier == 'quick' else 2})
    from vf.gen import corpus
    r = core.rng(seed, 'C11', 'corpus')
    paths = corpus.pick(r, 3, max_bytes=250_000, min_files=3) if tier == 'quick' else corpus.pick(r, 60, max_bytes=1_500_000)
    for must in ('json', 'unittest') if tier == 'thorough' else ('json',):
        paths.append(str(corpus.STDLIB / must))
    for p in paths:
        out.append({'part': 'P', 'path': p})
    return out


def worker_init() -> None:
    from vf.mon import msgs
    msgs.install()


def _classify_dead(run: _site.Run, idx: Dict[str, List[Any]], page: str, href: str, why: str, node: Any) -> str:
    from pydoctor import model
    target, frag = run.output.resolve(page, href)
    full = target + ('#' + frag if frag else '')
    objs = idx.get(full) or idx.get(target) or []
    # what is the link's target in the live model?
    for o in objs:
        if registry.is_superseded(o) or any(registry.is_superseded(a) for a in registry._ancestors(o)):
            return 'C11:link-to-superseded-duplicate'
    for o in objs:
        if not o.isVisible:
            return 'C11:link-to-hidden-object'
    for o in objs:
        p = o
        while p is not None:
            if isinstance(p, model.Module) and p.parent is not None and p.parent.contents.get(p.name) is not p:
                return 'C11:link-into-module-displaced-by-reexported-name'
            p = p.parent
    # "View In Hierarchy" of a class that the class index dropped: one of its bases is unresolved although a documented
    # class has exactly that name, and findRootClasses() lets the entry of that root class overwrite the list of
    # classes filed under the unresolved name
    if target == 'classIndex.html' and frag:
        c = run.system.allobjects.get(unquote(frag))
        if isinstance(c, model.Class) and any(b is None and isinstance(run.system.allobjects.get(n), model.Class) for n, b in zip(c.bases, c.baseobjects)):
            return 'C11:dead-anchor:class-dropped-from-class-index'
    # a section title of a reST docstring links back to "its" entry of the table of contents; the table is rebuilt (with new
    # ids, overwriting the title's refid) for every sidebar that shows it, the docstring body is rendered once
    if href.startswith('#rst-toc-entry-'):
        return 'C11:dead-anchor:section-title-backlink-to-toc-entry'
    # producer: where on the page does the link sit?
    where = 'body'
    for a in node.ancestors():
        cl = a.classes()
        if 'sidebar' in cl or 'sidebarcontainer' in cl:
            where = 'sidebar'
            break
        if a.tag == 'table' and 'children' in cl:
            where = 'child-table'
            break
        if a.attrs.get('id') == 'summaryTree':
            where = 'index'
            break
        if 'docstring' in cl:
            where = 'docstring'
            break
        if a.attrs.get('id') == 'childList':
            where = 'member-detail'
        if 'navbar' in cl or a.tag == 'nav' or a.tag == 'head':
            where = 'chrome'
            break
    # a same-page link inside an inherited docstring: it was rendered relative to the page of the class the docstring
    # comes from
    # (the body of the docstring in the member's details: summaries shown in tables and indexes are rendered on purpose with full urls)
    if href.startswith('#') and frag and where == 'docstring':
        from pydoctor import epydoc2stan
        for o in idx.get(page, []):
            if isinstance(o, model.Class):
                for m in o.contents.values():
                    if m.docstring is None:
                        try:
                            src = epydoc2stan.ensure_parsed_docstring(m)
                        except Exception:  # noqa: BLE001
                            src = None
                        if src is not None and src is not m and src.parent is not o and src.parent is not None and unquote(frag) in src.parent.contents:
                            return 'C11:dead-anchor:inherited-docstring-link-relative-to-source-page'
    kind = 'file' if 'was not written' in why else 'anchor'
    return f'C11:dead-{kind}:{where}'


def judge(res: core.Res, run: _site.Run, label: str, w: Dict[str, Any]) -> None:
    from pydoctor import model
    out = run.output
    idx = run.url_index()
    res.c('pages_parsed', len(out.pages))
    nlinks = sum(1 for p in out.pages.values() for h, _ in p.links if out.is_internal(h))
    res.c('links_checked', nlinks)
    res.c('anchors_checked', sum(1 for p in out.pages.values() for h, _ in p.links if out.is_internal(h) and '#' in h))
    for page, href, why, node in out.dead_links():
        key = _classify_dead(run, idx, page, href, why, node)
        res.v(key, f'{label}: {page} links to {href!r}: {why}', page=page, href=href, **w)
    # records
    docs = out.all_documents()
    ids = {d['id'] for d in docs}
    for d in docs:
        res.c('records_checked')
        u = d.get('url', '')
        t, frag = out.resolve('all-documents.html', u)
        if t not in out.files or (frag and t in out.pages and frag not in out.pages[t].anchors):
            key = _classify_dead(run, idx, 'all-documents.html', u, 'record', out.pages['all-documents.html'].dom)
            if key.startswith('C11:dead-'):
                key = 'C11:dead-search-record-url'
            res.v(key, f'{label}: all-documents record {d["id"]!r} has url {u!r} which does not resolve', record=d, **w)
    for fname, refs in out.search_refs().items():
        for ref in refs:
            res.c('records_checked')
            if ref not in ids:
                res.v('C11:search-ref-without-document', f'{label}: {fname} references {ref!r}, which has no record in all-documents.html', **w)
    # model -> output
    for o in run.system.allobjects.values():
        if not o.isVisible or registry.is_superseded(o) or any(registry.is_superseded(a) for a in registry._ancestors(o)):
            continue
        # objects cut off from the tree cannot be expected to be rendered: that is C02's finding
        if any(a.parent is not None and a.parent.contents.get(a.name) is not a for a in [o] + list(registry._ancestors(o))):
            continue
        res.c('model_objects_checked')
        exp = urls.ref_url(o)
        page, _, frag = exp.partition('#')
        page = unquote(page)
        if page not in out.files:
            res.v('C11:visible-object-without-page', f'{label}: visible {o!r} has no page {page!r}', obj=o.fullName(), **w)
        elif frag and unquote(frag) not in out.pages[page].anchors:
            res.v('C11:visible-member-without-anchor', f'{label}: visible {o!r} has no anchor #{frag} on {page!r}', obj=o.fullName(), **w)
        if unquote(o.url) != unquote(exp):
            res.v('C11:url-differs-from-layout', f'{label}: {o!r}.url is {o.url!r}, the documented layout gives {exp!r}', obj=o.fullName(), **w)


def run_case(case: Dict[str, Any]) -> core.Res:
    res = core.Res()
    if case['part'] == 'P':
        r = core.rng('C11', 'P', case['path'])
        args = _site.option_sets(r)
        run = _site.Run([Path(case['path'])], args)
        try:
            label = Path(case['path']).name
            if run.error:
                res.c('render_raised')        # C01's business
            else:
                judge(res, run, label, {'path': case['path'], 'args': args})
                res.c('evaluations')
                if len(run.output.pages) >= 10:
                    res.distinct(label)
                res.setadd('option_sets', ' '.join(a for a in args if not a.startswith('--privacy')))
        finally:
            run.close()
        res.sample({'package': case['path'], 'args': args})
        return res
    for label, spec, run, args, sources in _site.generated_runs(case, 'C11'):
        w = {'project': label, 'args': args, 'sources': sources}
        if run.error:
            res.v(f'C11:render-raises:{run.error.split(":")[0]}', f'{label}: rendering raised {run.error[:300]}', **w)
            continue
        judge(res, run, label, w)
        res.c('evaluations')
        if len(run.output.pages) >= 10:
            res.distinct(label)
        res.setadd('option_sets', ' '.join(a for a in args if not a.startswith('--privacy')))
        res.sample({'project': label, 'args': args, 'pages': len(run.output.pages)})
    return res


def finish(agg: Dict[str, Any], tier: str, seed: int) -> None:
    agg['cnt']['option_sets'] = len(agg['sets'].get('option_sets', ()))
