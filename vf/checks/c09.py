"""C09 -- rendering a docstring keeps its text: nothing is lost, altered or reordered (conservation with unique tokens)."""
from __future__ import annotations

import re
import traceback
from typing import Any, Dict, List, Optional, Tuple

from vf import core
from vf.gen import docgen
from vf.mon import crawl

ID = 'C09'
LEVEL = 'exploration'
RULE = ('documents from a structure-aware generator (paragraphs of unique word tokens, inline markup, nested bullet/'
        'enumerated lists three deep, literal blocks whose lines look like markup, doctest blocks, sections, fields of every '
        'kind with one- and two-paragraph bodies) serialised to epytext, reStructuredText, Google and NumPy layouts, and '
        'plaintext documents; rendered by format_docstring on a function. Oracle: the token sequence of the visible text '
        'outside the field table equals the emitted sequence; every verbatim block is reproduced character for character '
        'under that markup\'s rules; every field\'s tokens appear in the row/section the field belongs to or the field is '
        'named in a warning; plaintext is reproduced exactly. Distinct by document; non-trivial: >=3 blocks or a field.')
ASSUME = ['well-formed means: as the serializers in vf/gen/docgen.py write it (each rule cites the markup manual)',
          'fields that pydoctor moves by design (@type into the parameter row, @rtype into Returns) are looked for there']
DECIDING = {'documents': 1500, 'body_tokens_compared': 20000, 'verbatim_blocks_compared': 500, 'fields_compared': 1000, 'plaintext_compared': 100, 'documented_variables_checked': 500, 'argument_documents': 200}
CPU_S = 900
FORMATS = ['epytext', 'restructuredtext', 'google', 'numpy']
TOK = re.compile(r'w\d{6}')
PER = 25


def cases(tier: str, seed: int) -> List[Dict[str, Any]]:
    n = 1500 if tier == 'quick' else 40000
    no = 400 if tier == 'quick' else 8000
    return [{'seed': seed, 'k': k, 'n': PER} for k in range(0, n, PER)] + [{'part': 'O', 'seed': seed, 'k': k, 'n': 50} for k in range(0, no, 50)] + \
        [{'part': 'A', 'seed': seed, 'k': k, 'n': 50} for k in range(0, no, 50)]


def worker_init() -> None:
    from vf.mon import msgs
    msgs.install()


def _render(doc: str, fmt: str) -> Tuple[Any, str]:
    from pydoctor import model, epydoc2stan
    from pydoctor.options import Options
    from pydoctor.stanutils import flatten
    opts = Options.from_args([f'--docformat={fmt}'])
    opts.verbosity = -10
    system = model.System(opts)
    b = system.systemBuilder(system)
    # the documented function is written with or without annotations: what the annotations add must not take anything away
    import zlib
    sig = ['(a, b=1, *args, **kw)', '(a: int, b: str = 1, *args, **kw) -> int', "(a, b=1, *args: int, **kw: str) -> 'Ret'", '(a, b=1, *args, **kw) -> None'][zlib.crc32(doc.encode('utf-8', 'replace')) % 4]
    b.addModuleString(f'def f{sig}:\n    {doc!r}\n', 'm')
    b.buildModules()
    return system, flatten(epydoc2stan.format_docstring(system.allobjects['m.f']))


def _extract(html: str) -> Tuple[List[str], List[str], List[Tuple[str, str, List[str]]]]:
    dom = crawl.parse_html(html)
    body: List[str] = []
    pres: List[str] = []
    rows: List[Tuple[str, str, List[str]]] = []

    def in_table(n: Any) -> bool:
        return any(a.tag == 'table' and 'fieldTable' in a.classes() for a in n.ancestors()) or (n.tag == 'table' and 'fieldTable' in n.classes())

    def walk(n: Any) -> None:
        for c in n.children:
            if isinstance(c, str):
                body.extend(TOK.findall(c))
            elif c.tag == 'table' and 'fieldTable' in c.classes():
                label = ''
                for tr in c.find_all('tr'):
                    if 'fieldStart' in tr.classes():
                        label = tr.text_content().strip()
                    else:
                        txt = tr.text_content()
                        rows.append((label, txt, TOK.findall(txt)))
                for pre in c.find_all('pre'):
                    t = pre.text_content()
                    pres.append(t[1:] if t.startswith('\n') else t)
                    if pres[-1].endswith('\n'):
                        pres[-1] = pres[-1][:-1]
            else:
                if c.tag == 'pre':
                    t = c.text_content()
                    if t.startswith('\n'):
                        t = t[1:]
                    if t.endswith('\n'):
                        t = t[:-1]
                    pres.append(t)
                walk(c)
    walk(dom)
    return body, pres, rows


def _in_returns_type_cell(html: str, token: str) -> bool:
    dom = crawl.parse_html(html)
    for table in dom.find_all('table', 'fieldTable'):
        label = ''
        for tr in table.find_all('tr'):
            if 'fieldStart' in tr.classes():
                label = tr.text_content().strip()
            elif label.startswith('Returns'):
                for td in tr.find_all('td', 'fieldArgContainer'):
                    if token in td.text_content():
                        return True
    return False


BLOCKS = {'p', 'li', 'td', 'tr', 'table', 'div', 'pre', 'ul', 'ol', 'dl', 'dt', 'dd', 'br', 'blockquote', 'h1', 'h2', 'h3', 'h4', 'h5', 'h6'}


def _glued(html: str) -> List[str]:
    """two word tokens shown without anything between them inside one block of text"""
    dom = crawl.parse_html(html)
    buf: List[str] = []

    def walk(n: Any) -> None:
        for c in n.children:
            if isinstance(c, str):
                buf.append(c)
            else:
                if c.tag in BLOCKS:
                    buf.append('\n')
                walk(c)
                if c.tag in BLOCKS:
                    buf.append('\n')
    walk(dom)
    return re.findall(r'w\d{6}(?=w\d{6})', ''.join(buf))


def _judge(res: core.Res, doc: str, exp: docgen.Expect, fmt: str, label: str) -> None:
    from vf.mon import msgs
    w = {'docformat': fmt, 'docstring': doc, 'case': label}
    try:
        system, html = _render(doc, fmt)
    except core.CpuTimeout:
        raise
    except Exception as e:  # noqa: BLE001
        res.v(f'C09:render-raises:{type(e).__name__}', f'{label}: rendering a well-formed {fmt} document raised {e!r}', traceback=traceback.format_exc()[-1200:], **w)
        return
    res.c('documents')
    res.c('evaluations')
    messages = [m[1] for m in msgs.messages(system) if m[2] < 0]
    body, pres, rows = _extract(html)
    res.c('body_tokens_compared', len(exp.body))
    if body != exp.body:
        missing = [t for t in exp.body if t not in body]
        extra = [t for t in body if t not in exp.body]
        dup = sorted({t for t in body if body.count(t) > 1})
        if missing:
            # lost in the body: maybe presented in the field table or named in a warning?
            in_rows = [t for t in missing if any(t in r[2] for r in rows)]
            kind = 'token-moved-into-field-table' if len(in_rows) == len(missing) else 'token-lost'
        elif dup:
            kind = 'token-duplicated'
        elif extra:
            kind = 'token-invented'
        else:
            kind = 'token-reordered'
        i = next((j for j in range(min(len(body), len(exp.body))) if body[j] != exp.body[j]), min(len(body), len(exp.body)))
        res.v(f'C09:{fmt}:{kind}', f'{label}: visible text of the body differs from the source at token {i}: expected ...{exp.body[max(0, i - 2):i + 3]}, shown ...{body[max(0, i - 2):i + 3]} (missing {missing[:4]}, messages {messages[:2]})'[:900],
              html=html[:6000], **w)
    g = _glued(html)
    if g and fmt == 'google' and _in_returns_type_cell(html, g[0]):
        res.v('C09:google:returns-free-form-split-at-later-colon', f'{label}: a multi-line free-form Returns section is cut at a later colon: the words before it ({g[:3]}...) are shown glued together as the return type'[:900], html=html[:6000], **w)
    elif g:
        res.v(f'C09:{fmt}:words-glued', f'{label}: words {g[:3]} are shown without the white space that separates them from the next word in the source', html=html[:6000], **w)
    for kind, text in exp.verbatim:
        res.c('verbatim_blocks_compared')
        if text not in pres:
            tok = TOK.search(text)
            near = next((p for p in pres if tok and tok.group(0) in p), None)
            ret_toks = [t for fl, k_, ts in exp.fields if fl == 'Returns' for t in ts]
            in_free_returns = fmt == 'google' and tok is not None and tok.group(0) in ret_toks and any(_in_returns_type_cell(html, t) for t in ret_toks[:3])
            if fmt == 'google' and near is None and tok and (_in_returns_type_cell(html, tok.group(0)) or in_free_returns):
                # mechanism: a free-form multi-line "Returns:" text is split into type/description at the first single colon
                # found on a later line (here a colon inside the literal block), because the text before it passes is_type()
                res.v('C09:google:returns-free-form-split-at-later-colon', f'{label}: a multi-line free-form Returns section is cut at a colon inside its literal block: the text before it is shown as the return type, the {kind} block {text!r} is not reproduced'[:900], html=html[:6000], **w)
                continue
            raises_toks = [t for fl, k_, ts in exp.fields if fl == 'Raises' for t in ts]
            if fmt == 'google' and kind == 'literal' and tok and tok.group(0) in getattr(exp, 'bare_literals', []) and tok.group(0) in raises_toks:
                # mechanism: in a google "Raises:" entry `Type: intro::` whose only continuation lines are the literal block, the block ends up
                # at the indentation of the introducing line after conversion and is read as an ordinary paragraph (its markup is interpreted)
                res.v('C09:google:raises-entry-literal-block-as-sole-continuation', f'{label}: the literal block {text!r} of a Raises entry, introduced on the entry line and followed by nothing, is shown as an ordinary paragraph'[:900], html=html[:6000], **w)
                continue
            res.v(f'C09:{fmt}:{kind}-block-altered', f'{label}: {kind} block is not reproduced character for character: expected {text!r}, shown {near!r}'[:900], html=html[:6000], **w)
    for flabel, key, toks in exp.fields:
        res.c('fields_compared')
        ok = False
        for rl, txt, rt in rows:
            if not (rl.startswith(flabel) or (flabel in ('Note',) and rl.startswith('Note'))):
                continue
            if key is not None and key not in txt:
                continue
            # tokens of the field, in order, inside this row
            it = iter(rt)
            if all(t in it for t in toks):
                ok = True
                break
        if not ok:
            named = any((key is not None and key in m) or flabel.split(':')[-1].strip() in m for m in messages)
            where = [(rl, rt) for rl, txt, rt in rows if any(t in rt for t in toks)]
            kindv = 'field-misplaced' if where else ('field-lost-with-warning' if named else 'field-silently-discarded')
            if kindv == 'field-lost-with-warning':
                res.c('fields_reported_in_warning')
                continue
            if fmt == 'google' and flabel == 'Raises' and any(t in getattr(exp, 'bare_literals', []) for t in toks):
                # same mechanism, other symptom: the lines of the literal block, read as ordinary text, are themselves taken for markup
                res.v('C09:google:raises-entry-literal-block-as-sole-continuation', f'{label}: the Raises entry {key!r} ends with a literal block that is read as ordinary text: tokens {toks[:4]} are not all shown under the entry (messages {messages[:2]})'[:900], html=html[:6000], **w)
                continue
            res.v(f'C09:{fmt}:{kindv}:{flabel.split(":")[0]}', f'{label}: field {flabel!r} {key!r} with tokens {toks[:4]} is not shown under its entry (found in {where[:2]}; messages {messages[:2]})'[:900],
                  html=html[:6000], **w)
    for tag in exp.warned:
        if not any(f"Unknown field '{tag}'" in m for m in messages):
            res.v(f'C09:{fmt}:unknown-field-not-reported', f'{label}: unknown field {tag!r} produced no warning', **w)
    unexpected = [m for m in messages if 'Unknown field' not in m and 'Cannot find link target' not in m]
    if unexpected:
        res.c('documents_with_unexpected_messages')
        res.setadd('unexpected_messages', re.sub(r'w\d{6}', 'wN', unexpected[0].split(': ', 1)[-1])[:120])
    if len(exp.verbatim) + len(exp.fields) >= 1:
        res.distinct(label)


# ---- variables documented in the docstring of their class or module -----------------------------------------------------------
# The text of an @ivar/@cvar/@var field (and of the matching @type field, in whatever order the two are written) is shown with the
# variable it documents: the variable must be a visible member of its owner and show the tokens of its description and of its type.

def _owner_doc(r: Any, fmt: str) -> Tuple[str, List[Tuple[str, List[str], Optional[str]]]]:
    n0 = r.randrange(100000, 800000)
    tok = iter(f'w{n0 + i:06d}' for i in range(100))
    lines = [f'Owner {next(tok)} {next(tok)}.', '']
    mk = (lambda tag, arg: f'@{tag} {arg}:') if fmt == 'epytext' else (lambda tag, arg: f':{tag} {arg}:')
    code = (lambda t: f'C{{{t}}}') if fmt == 'epytext' else (lambda t: f'``{t}``')
    out: List[Tuple[str, List[str], Optional[str]]] = []
    fields: List[str] = []
    for i in range(r.randint(1, 4)):
        name = f'dv{i}'
        tag = r.choice(['ivar', 'cvar', 'var'])
        desc = [next(tok) for _ in range(r.randint(1, 4))]
        ty = next(tok) if r.random() < .7 else None
        d = f"{mk(tag, name)} {' '.join(desc)}"
        t = f'{mk("type", name)} {code(ty)}' if ty else None
        pair = [x for x in (d, t) if x]
        if r.random() < .5:
            pair.reverse()          # the type may be written before the description
        fields += pair
        out.append((name, desc, ty))
    if r.random() < .4:
        r.shuffle(fields)
    return '\n'.join(lines + fields) + '\n', out


def _run_owner(res: core.Res, case: Dict[str, Any]) -> None:
    from pydoctor import model, epydoc2stan
    from pydoctor.options import Options
    from pydoctor.stanutils import flatten
    for j in range(case['n']):
        r = core.rng('C09', 'owner', case['seed'], case['k'] + j)
        fmt = r.choice(['epytext', 'restructuredtext'])
        doc, expect = _owner_doc(r, fmt)
        kind = r.choice(['class', 'module'])
        assigned = {name for name, _, _ in expect if r.random() < .4}       # some of the variables also exist in the code
        body = ''.join(f'    {n} = 1\n' if kind == 'class' else f'{n} = 1\n' for n in sorted(assigned))
        src = f'class Owner:\n    {doc!r}\n{body}    def m(self): pass\n' if kind == 'class' else f'{doc!r}\n{body}def m(): pass\n'
        opts = Options.from_args([f'--docformat={fmt}'])
        opts.verbosity = -10
        system = model.System(opts)
        b = system.systemBuilder(system)
        b.addModuleString(src, 'ow')
        b.buildModules()
        owner = system.allobjects['ow.Owner' if kind == 'class' else 'ow']
        w = {'docformat': fmt, 'docstring': doc, 'source': src}
        res.c('owner_documents')
        res.c('evaluations')
        res.distinct(f'owner:{case["seed"]}:{case["k"] + j}')
        for name, desc, ty in expect:
            res.c('documented_variables_checked')
            attr = owner.contents.get(name)
            if attr is None or not attr.isVisible or attr.kind is None:
                res.v(f'C09:{fmt}:documented-variable-not-shown', f'{kind} docstring documents {name} ({" ".join(desc)}) but the variable is {"missing" if attr is None else "not a visible member (kind " + str(attr.kind) + ")"}', **w)
                continue
            try:
                shown = TOK.findall(flatten(epydoc2stan.format_docstring(attr)))
                t_stan = epydoc2stan.type2stan(attr)
                tshown = TOK.findall(flatten(t_stan)) if t_stan is not None else []
            except Exception as e:  # noqa: BLE001 -- C08's business
                res.c('owner_render_raised')
                continue
            if shown != desc:
                res.v(f'C09:{fmt}:documented-variable-text-differs', f'{kind} docstring: the description of {name} is {desc}, the variable shows {shown}', **w)
            if ty is not None and tshown != [ty]:
                res.v(f'C09:{fmt}:documented-variable-type-differs', f'{kind} docstring: the type of {name} is {ty}, the variable shows {tshown}', **w)
    res.sample({'owner_docstring': doc})


# ---- field arguments of several words, definition-list terms with several classifiers ------------------------------------------
# Nothing of what is written there may vanish without a message: every token is shown, or the docstring is reported.

def _run_args(res: core.Res, case: Dict[str, Any]) -> None:
    from vf.mon import msgs
    for j in range(case['n']):
        r = core.rng('C09', 'args', case['seed'], case['k'] + j)
        n0 = r.randrange(100000, 800000)
        tok = iter(f'w{n0 + i:06d}' for i in range(60))
        fmt = r.choice(['epytext', 'restructuredtext'])
        lines = [f'Summary {next(tok)}.', '']
        if fmt == 'epytext':
            for _ in range(r.randint(1, 3)):
                tag = r.choice(['raise', 'warns', 'raises', 'except'])
                arg = ' '.join([r.choice(['ValueError', 'KeyError', next(tok)])] + [r.choice(['or', 'since', 'and', next(tok)]) for _ in range(r.randint(1, 3))] + [next(tok)])
                lines.append(f'@{tag} {arg}: {next(tok)} {next(tok)}')
        else:
            lines.append(r.choice([':Parameters:', ':Keywords:', ':Exceptions:']))
            for name in r.sample(['a', 'b', 'args', 'kw'], r.randint(1, 3)):
                cls_ = ' : '.join(next(tok) for _ in range(r.randint(1, 3)))
                lines.append(f'    {name} : {cls_}')
                lines.append(f'        {next(tok)} {next(tok)}')
        doc = '\n'.join(lines) + '\n'
        if j % 10 == 0:
            # a reST docstring that *starts* with its field list, using field names docutils knows as bibliographic fields
            fmt = 'restructuredtext'
            doc = ''.join(f':{nm}: {next(tok)} {next(tok)}\n' for nm in r.sample(['author', 'version', 'date', 'copyright', 'organization', 'status', 'contact', 'authors'], 4)) + \
                f':param a: {next(tok)}\n:note: {next(tok)}\n'
        try:
            system, html = _render(doc, fmt)
        except Exception as e:  # noqa: BLE001 -- C08's business
            res.c('args_render_raised')
            continue
        res.c('argument_documents')
        res.c('evaluations')
        res.distinct(f'args:{case["seed"]}:{case["k"] + j}')
        shown = set(TOK.findall(html))
        missing = [t for t in TOK.findall(doc) if t not in shown]
        reported = [m[1] for m in msgs.messages(system) if m[2] < 0]
        if missing and not reported:
            res.v(f'C09:{fmt}:token-lost-in-field-argument', f'tokens {missing} of a field argument / term do not appear in the rendered docstring and nothing is reported', docformat=fmt, docstring=doc, html=html[:1500])
    res.sample({'argument_docstring': doc})


def run_case(case: Dict[str, Any]) -> core.Res:
    res = core.Res()
    if case.get('part') == 'A':
        _run_args(res, case)
        return res
    if case.get('part') == 'O':
        _run_owner(res, case)
        return res
    for j in range(case['n']):
        idx = case['k'] + j
        fmt = FORMATS[idx % 4]
        r = core.rng('C09', case['seed'], idx)
        doc, exp = docgen.generate(r, fmt)
        _judge(res, doc, exp, fmt, f"C09:{case['seed']}:{idx}")
        if j % 8 == 0:
            # plaintext is reproduced exactly
            text = docgen.plaintext(r)
            try:
                system, html = _render(text, 'plaintext')
            except Exception as e:  # noqa: BLE001
                res.v(f'C09:render-raises:{type(e).__name__}', f'plaintext rendering raised {e!r}', docstring=text)
                continue
            import inspect
            dom = crawl.parse_html(html)
            shown = [p.text_content() for p in dom.find_all('p', 'pre')]
            res.c('plaintext_compared')
            if inspect.cleandoc(text) and shown != [inspect.cleandoc(text)]:
                res.v('C09:plaintext-altered', f'plaintext docstring {text!r} is shown as {shown!r}', docstring=text)
    res.sample({'docformat': fmt, 'docstring': doc[:600], 'expected_tokens': exp.body[:8]})
    return res
