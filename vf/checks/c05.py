"""C05 -- inheritance is computed as Python computes it (reference model: CPython itself, same process)."""
from __future__ import annotations

import ast
import importlib
import importlib.abc
import importlib.machinery
import inspect
import re
import itertools
import sys
import types
import zlib
from typing import Any, Dict, List, Optional, Tuple

from vf import core

ID = 'C05'
LEVEL = 'exploration'
RULE = ('part X: every hierarchy of n<=N classes in definition order where class i takes any ordered subset of '
        'distinct earlier classes as bases (n<=5 exhaustive = 10 573 hierarchies, n=6 sampled), members '
        'and docstrings placed pseudo-randomly; part R: random hierarchies of 6-14 classes over 2-4 modules with '
        'cross-module bases, Generic[T]/Base[T] bases, Exception roots and base names rebound by a later import; part G: G-PROJ projects (re-exports that move classes, cycles, duplicates; three processing orders) and real packages, where the reference is type() over dummy classes mirroring the base graph pydoctor resolved. The same source is executed statement by '
        'statement by CPython (TypeError => inconsistent) and analysed by pydoctor. A hierarchy is non-trivial if some '
        'class has >=2 bases.')
ASSUME = ['CPython 3.12 type() is the reference for linearisation; inspect.getdoc for inherited docstrings',
          'classes whose creation CPython refuses for a reason propagated from an earlier refused class are not judged']
DECIDING = {'project_classes_judged': 2000, 'classes_judged': 3000, 'inconsistent_judged': 50, 'find_compared': 3000, 'doc_compared': 1000,
            'tables_compared': 100, 'overrides_compared': 100, 'rendered_doc_compared': 1000, 'page_tables_compared': 500, 'dotted_lookup_compared': 3000, 'hierarchies_with_hidden_members': 30, 'reexported_classes': 100}
CPU_S = 900

MEMBERS = ['m0', 'm1', 'v0']


def _ordered_subsets(k: int) -> List[Tuple[int, ...]]:
    out: List[Tuple[int, ...]] = []
    for r in range(k + 1):
        out.extend(itertools.permutations(range(k), r))
    return out


def _count(n: int) -> int:
    t = 1
    for i in range(n):
        t *= len(_ordered_subsets(i))
    return t


def _hier(n: int, idx: int) -> List[Tuple[int, ...]]:
    bases = []
    for i in range(n):
        subs = _ordered_subsets(i)
        bases.append(subs[idx % len(subs)])
        idx //= len(subs)
    return bases


def cases(tier: str, seed: int) -> List[Dict[str, Any]]:
    out: List[Dict[str, Any]] = []
    per = 40
    maxn = 5
    for n in range(1, maxn + 1):
        tot = _count(n)
        for lo in range(0, tot, per):
            out.append({'part': 'X', 'n': n, 'idx': list(range(lo, min(tot, lo + per)))})
    r = core.rng(seed, 'C05', 'n6')
    idxs = sorted(r.sample(range(_count(6)), 600 if tier == 'quick' else 40000))
    for lo in range(0, len(idxs), per):
        out.append({'part': 'X', 'n': 6, 'idx': idxs[lo:lo + per]})
    nrand = 300 if tier == 'quick' else 6000
    for k in range(0, nrand, 20):
        out.append({'part': 'R', 'seed': seed, 'k': k, 'n': 20})
    for k in range(0, nrand // 2, 20):
        out.append({'part': 'RE', 'seed': seed, 'k': k, 'n': 20})
    for k in range(0, nrand // 2, 20):
        out.append({'part': 'RC', 'seed': seed, 'k': k, 'n': 20})
    # part G: whole projects (re-exports that move classes, import cycles, duplicates, several processing orders) and real packages;
    # the reference linearises the hierarchy pydoctor itself resolved, with CPython's type()
    ng = 200 if tier == 'quick' else 4000
    for k in range(0, ng, 10):
        out.append({'part': 'G', 'seed': seed, 'k': k, 'n': 10})
    from vf.gen import corpus
    r2 = core.rng(seed, 'C05', 'corpus')
    for pth in (corpus.pick(r2, 4, max_bytes=400_000, min_files=3) if tier == 'quick' else [p for p, n_, size in corpus.roots() if size < 2_000_000]):
        out.append({'part': 'GP', 'path': pth})
    return out


def worker_init() -> None:
    from vf.mon import msgs
    msgs.install()


_LOOKUP: List[Any] = []


def _lookup() -> Any:
    if not _LOOKUP:
        from pydoctor.templatewriter import TemplateLookup
        import importlib.resources as ir
        _LOOKUP.append(TemplateLookup(ir.files('pydoctor.themes') / 'base'))
    return _LOOKUP[0]


# ------------------------------------------------------------------------------------------------
# source generation

def _class_src(name: str, bases: List[str], r, always_member: bool = False) -> Tuple[str, Dict[str, Optional[str]]]:
    """returns (source, {member: docstring or None or ''}) ; v0 is a class variable (no docstring at run time)"""
    lines = [f"class {name}({', '.join(bases)}):" if bases else f"class {name}:"]
    members: Dict[str, Optional[str]] = {}
    if r.random() < .5:
        lines.append(f'    """doc of class {name}"""')
    for m in MEMBERS:
        if r.random() < (.45 if not always_member else .8):
            if m.startswith('m'):
                k = r.random()
                doc: Optional[str]
                if k < .5:
                    doc = f'doc of {name}.{m}'
                elif k < .62:
                    doc = ''
                else:
                    doc = None
                lines.append(f'    def {m}(self):')
                if doc is not None:
                    lines.append(f'        """{doc}"""')
                lines.append('        return 1')
                members[m] = doc
            else:
                lines.append(f'    {m} = {len(name)}')
                members[m] = None
    if len(lines) == 1:
        lines.append('    pass')
    return '\n'.join(lines) + '\n', members


def _gen_exhaustive(n: int, idx: int) -> Dict[str, str]:
    r = core.rng('C05', 'X', n, idx)
    bases = _hier(n, idx)
    src = ''
    for i in range(n):
        s, _ = _class_src(f'C{i}', [f'C{b}' for b in bases[i]], r)
        src += s
    return {f'x{n}_{idx}': src}


def _gen_random(seed: int, k: int, cyclic: bool = False) -> Dict[str, str]:
    r = core.rng('C05', 'R', seed, k, cyclic)
    nmod = r.randint(2, 4) if not cyclic else r.randint(2, 3)
    ncls = r.randint(6, 14) if not cyclic else r.randint(4, 9)
    tag = f'r{seed}_{k}_' if not cyclic else f'c{seed}_{k}_'
    mods: List[List[str]] = [[] for _ in range(nmod)]
    where: Dict[str, int] = {}
    generic: set = set()
    srcs = ['' for _ in range(nmod)]
    imported: List[set] = [set() for _ in range(nmod)]
    uses_typing = [False] * nmod
    # classes are created in a global order; class i lives in a module >= the modules of its bases
    # (modules import only from earlier modules: acyclic)
    # cyclic: any module for any class, imports written just before the class that needs them: the modules import each other, and
    # whether Python can execute them depends on where it enters (decided by executing them)
    modof = sorted(r.randrange(nmod) for _ in range(ncls)) if not cyclic else [r.randrange(nmod) for _ in range(ncls)]
    names = [f'K{i}' for i in range(ncls)]
    for i, name in enumerate(names):
        m = modof[i]
        cand = names[:i]
        nb = min(len(cand), r.choice([0, 1, 1, 2, 2, 3]))
        chosen = r.sample(cand, nb)
        bases: List[str] = []
        for b in chosen:
            bm = where[b]
            style = r.random()
            if bm != m and b not in imported[m]:
                if style < .5:
                    srcs[m] += f'from {tag}m{bm} import {b}\n'
                    imported[m].add(b)
                    ref = b
                else:
                    srcs[m] += f'import {tag}m{bm}\n'
                    ref = f'{tag}m{bm}.{b}'
            else:
                ref = b
            if b in generic and r.random() < .6:
                ref += '[T]'
                uses_typing[m] = True
            bases.append(ref)
        k2 = r.random()
        has_generic_base = any(b.split('[')[0].split('.')[-1] in generic for b in bases)
        # typing drops an explicit Generic[T] at run time when another generic alias is among the bases
        # (__mro_entries__), so the written bases would not be the run-time bases: only plain hierarchies get it
        if k2 < .12 and not has_generic_base:
            uses_typing[m] = True
            if r.random() < .5:
                bases.append('Generic[T]')
            else:
                bases.insert(0, 'Generic[T]')
            generic.add(name)
        elif k2 < .2 and not bases:
            bases.append('Exception')
        if any(b.split('[')[0].split('.')[-1] in generic for b in bases):
            generic.add(name)
        s, _ = _class_src(name, bases, r)
        srcs[m] += s
        if len(bases) >= 2 and r.random() < .4:
            # a member of the class is named while the module is analysed (an alias): the lookup runs before any linearisation exists
            mm = r.choice(MEMBERS)
            srcs[m] += f'try:\n    early_{name}_{mm} = {name}.{mm}\nexcept AttributeError:\n    pass\n'
        where[name] = m
        mods[m].append(name)
        # the name a base was written with is rebound after the class statement (Python evaluated the bases when the
        # statement ran; what the name means later is irrelevant to this class)
        plain = [b for b in bases if b in imported[m]]
        if plain and r.random() < .3:
            b = r.choice(plain)
            others = [o for o in names[:i] if o != b and where[o] != m and o not in imported[m]]
            if others:
                o = r.choice(others)
                srcs[m] += f'from {tag}m{where[o]} import {o} as {b}\n'
                imported[m].discard(b)
    out = {}
    for m in range(nmod):
        head = 'from typing import Generic, TypeVar\nT = TypeVar("T")\n' if uses_typing[m] else ''
        out[f'{tag}m{m}'] = head + srcs[m]
    return out


def _gen_reexport(seed: int, k: int) -> Tuple[Dict[str, str], Dict[str, str]]:
    """a random hierarchy whose classes a further module re-exports through __all__, in an order of its own: the classes are
    moved, and re-registered, in that order (a subclass may now precede its bases in the system)"""
    mods = _gen_random(seed, k)
    r = core.rng('C05', 'RE', seed, k)
    # distinct line ranges per module: a moved class is reported under its new module with its old line number
    mods = {name: '\n' * (300 * i) + src for i, (name, src) in enumerate(mods.items())}
    found = []
    for name, src in mods.items():
        for st in ast.parse(src).body:
            if isinstance(st, ast.ClassDef):
                found.append((name, st.name))
    r.shuffle(found)
    picked = found[:max(1, int(len(found) * r.choice([.4, .7, 1.])))]
    pub = f'r{seed}_{k}_pub'
    src = ''.join(f'from {m} import {c}\n' for m, c in picked)
    src += f'__all__ = {[c for _, c in picked]!r}\n'
    mods[pub] = src
    return mods, {f'{m}.{c}': f'{pub}.{c}' for m, c in picked}


# ------------------------------------------------------------------------------------------------
# CPython side

class _Loader(importlib.abc.MetaPathFinder, importlib.abc.Loader):
    """the generated modules, imported by the real import system (so that modules importing each other see each other half-executed,
    as they would from files), each executed statement by statement so that one refused statement does not hide the rest"""

    def __init__(self, mods: Dict[str, str], classes: Dict[str, Any], failed: Dict[str, str]) -> None:
        self.mods, self.classes, self.failed = mods, classes, failed

    def find_spec(self, name: str, path: Any = None, target: Any = None) -> Any:
        if name in self.mods:
            return importlib.machinery.ModuleSpec(name, self)
        return None

    def create_module(self, spec: Any) -> Any:
        return None

    def exec_module(self, mod: Any) -> None:
        modname = mod.__name__
        for st in ast.parse(self.mods[modname]).body:
            code = compile(ast.Module([st], []), modname, 'exec')
            try:
                exec(code, mod.__dict__)
            except Exception as e:  # noqa: BLE001
                if isinstance(st, ast.ClassDef):
                    self.failed[f'{modname}.{st.name}'] = f'{type(e).__name__}: {e}'
                else:
                    # an import of a class CPython refused to create (or of a name a half-executed module does not have yet): from
                    # here on the names of this module are not bound as written (a rebinding import may leave an older binding in place)
                    self.failed.setdefault(f'{modname}.<import-failed>', str(st.lineno))
                continue
            if isinstance(st, ast.ClassDef):
                self.classes[f'{modname}.{st.name}'] = mod.__dict__[st.name]


def _cpython(mods: Dict[str, str], entry: Optional[List[str]] = None) -> Tuple[Dict[str, Any], Dict[str, str]]:
    """Import the modules (in the order `entry`, default: as given). Returns ({'mod.Class': class}, {'mod.Class': error})."""
    classes: Dict[str, Any] = {}
    failed: Dict[str, str] = {}
    loader = _Loader(mods, classes, failed)
    sys.meta_path.insert(0, loader)
    try:
        for modname in (entry or list(mods)):
            importlib.import_module(modname)
    except BaseException:
        for m in mods:
            sys.modules.pop(m, None)
        raise
    finally:
        sys.meta_path.remove(loader)
    return classes, failed


# ------------------------------------------------------------------------------------------------

def _judge(res: core.Res, mods: Dict[str, str], label: str, final: Optional[Dict[str, str]] = None, entry: Optional[List[str]] = None, hide: Any = None) -> None:
    from pydoctor import model
    from pydoctor.templatewriter import util
    from pydoctor.templatewriter import pages
    from pydoctor import epydoc2stan
    from vf.mon import msgs
    classes, failed = _cpython(mods, entry)
    try:
        hidden: set = set()
        if hide is not None:
            # one or two members are hidden by an exact privacy rule: a hidden definition is not listed, and still is the one that counts
            cand = sorted((full, m) for full, c_ in classes.items() for m in MEMBERS if m in c_.__dict__)
            hidden = {f'{(final or {}).get(full, full)}.{m}' for full, m in hide.sample(cand, min(len(cand), hide.randint(1, 2)))}
        _judge2(res, mods, label, classes, failed, final or {}, hidden)
    finally:
        for m in mods:
            sys.modules.pop(m, None)


def _judge2(res: core.Res, mods: Dict[str, str], label: str, classes: Dict[str, Any], failed: Dict[str, str], final: Dict[str, str], hidden: Any = frozenset()) -> None:
    # final: run-time name -> documented name, for classes a re-exporting module moves
    inv = {v: k for k, v in final.items()}

    def F(full: str) -> str:
        return final.get(full, full)

    def Q(c: Any) -> str:
        return f'{c.__module__}.{c.__qualname__}'
    from pydoctor import model
    from pydoctor.templatewriter import util
    from pydoctor.templatewriter import pages
    from pydoctor import epydoc2stan
    from vf.mon import msgs
    from pydoctor.stanutils import flatten
    from twisted.web.template import tags, slot
    system = model.System()
    system.options.verbosity = -10
    system.options.privacy = [(model.PrivacyClass.HIDDEN, n_) for n_ in sorted(hidden)]
    if hidden:
        res.c('hierarchies_with_hidden_members')
    b = system.systemBuilder(system)
    for name, src in mods.items():
        b.addModuleString(src, name)
    b.buildModules()
    mro_msgs = [(m[1]) for m in msgs.messages(system) if m[0] == 'mro']
    res.c('hierarchies')
    multi = False
    lineno: Dict[str, int] = {}
    for modname, src in mods.items():
        for st in ast.parse(src).body:
            if isinstance(st, ast.ClassDef):
                lineno[f'{modname}.{st.name}'] = st.lineno
                if len(st.bases) >= 2:
                    multi = True
    if multi:
        res.distinct(label)
    gen_names = set(lineno)
    w = {'sources': mods}
    # classes written after a failed import in their module are not bound as written; neither is anything derived from them
    tainted = {full for full in lineno
               if f"{full.rsplit('.', 1)[0]}.<import-failed>" in failed and lineno[full] > int(failed[f"{full.rsplit('.', 1)[0]}.<import-failed>"])}
    changed = True
    while changed:
        changed = False
        for full in lineno:
            if full in tainted:
                continue
            o = system.allobjects.get(F(full))
            names = set()
            if isinstance(o, model.Class):
                names |= {inv.get(b.fullName(), b.fullName()) for b in o.baseobjects if b is not None}
            c = classes.get(full)
            if c is not None:
                names |= {f'{b.__module__}.{b.__qualname__}' for b in c.__mro__[1:]}
            if names & tainted:
                tainted.add(full)
                changed = True
    # what a page shows for each method, produced base classes first (the order of the class statements), as pages of a whole
    # project are: the parsed docstring of a member is computed once and kept
    rendered: Dict[Tuple[str, str], Optional[List[str]]] = {}
    for full in lineno:
        o = system.allobjects.get(F(full))
        if not isinstance(o, model.Class):
            continue
        for m in MEMBERS:
            own = o.contents.get(m)
            if m.startswith('m') and isinstance(own, model.Function):
                try:
                    rendered[(full, m)] = re.findall(r'doc of (\w+\.\w+)', flatten(epydoc2stan.format_docstring(own)))
                except Exception:  # noqa: BLE001 -- C08's business
                    rendered[(full, m)] = None
    for full in sorted(lineno):
        modname = full.rsplit('.', 1)[0]
        obj = system.allobjects.get(F(full))
        modname = F(full).rsplit('.', 1)[0]
        if not isinstance(obj, model.Class):
            res.v('C05:class-missing', f'{full} is not documented as a class ({label})', **w)
            continue
        reported = [t for t in mro_msgs if t.startswith(f'{modname}:{lineno[full]}:')]
        if full in tainted and 'consistent method resolution' not in failed.get(full, ''):
            res.c('classes_unjudgeable')
            continue
        if full in failed:
            err = failed[full]
            if 'consistent method resolution' in err or 'duplicate base' in err:
                res.c('classes_judged')
                res.c('inconsistent_judged')
                if not reported:
                    res.v('C05:inconsistent-not-reported', f'CPython: {err!r} for {full} but pydoctor reports nothing; mro={[c.fullName() for c in obj.mro()]} ({label})', cls=full, **w)
            else:
                res.c('classes_unjudgeable')    # NameError etc. propagated from an earlier refusal
            continue
        res.c('classes_judged')
        cls = classes[full]
        if reported:
            res.v('C05:consistent-but-reported', f'CPython accepts {full} but pydoctor reports {reported[0]!r} ({label})', cls=full, **w)
        exp = [F(Q(c)) for c in cls.__mro__ if Q(c) in gen_names]
        got = [c.fullName() for c in obj.mro()]
        if got != exp:
            res.v('C05:mro-differs', f'{full}: pydoctor mro {got}, CPython {exp} ({label})', cls=full, **w)
            continue
        gen_mro = [c for c in cls.__mro__ if f'{c.__module__}.{c.__qualname__}' in gen_names]
        for m in MEMBERS:
            definer = next((c for c in gen_mro if m in c.__dict__), None)
            found = obj.find(m)
            res.c('find_compared')
            fexp = f'{F(Q(definer))}.{m}' if definer else None
            fgot = found.fullName() if found is not None else None
            if fexp != fgot:
                res.v('C05:find-differs', f'{full}.find({m!r}) = {fgot}, attribute lookup finds {fexp} ({label})', cls=full, **w)
            # the same lookup written as a dotted name (what `L{K.m}` or an alias `x = K.m` names), from the scope that holds the class
            if fexp is not None and obj.parent is not None:
                res.c('dotted_lookup_compared')
                try:
                    dgot_ = obj.parent.resolveName(f'{obj.name}.{m}')
                except Exception as e:  # noqa: BLE001
                    dgot_ = e
                dname = dgot_.fullName() if hasattr(dgot_, 'fullName') else repr(dgot_)
                if dname != fexp:
                    res.v('C05:dotted-lookup-differs', f'{obj.parent.fullName()}.resolveName({obj.name + "." + m!r}) = {dname}, attribute lookup finds {fexp} ({label})', cls=full, **w)
            if m.startswith('m') and m in cls.__dict__:
                own = obj.contents.get(m)
                if own is not None:
                    res.c('doc_compared')
                    # "as attribute lookup along that order yields": the first class of cls.__mro__ that defines
                    # the member with a docstring (an empty one ends the search: it is a docstring).
                    # inspect.getdoc is *not* that on diamonds (it asks getattr(base, name), i.e. each base's own
                    # order); disagreements between the two are counted, not judged.
                    dexp = next((c.__dict__[m].__doc__ for c in gen_mro
                                 if m in c.__dict__ and c.__dict__[m].__doc__ is not None), None)
                    if dexp is not None:
                        dexp = inspect.cleandoc(dexp)
                    if (inspect.getdoc(getattr(cls, m)) or None) != (dexp or None):
                        res.c('inspect_getdoc_differs_from_mro_lookup')
                    dgot, _src = model.get_docstring(own)
                    if (dexp or None) != (dgot or None):
                        res.v('C05:inherited-doc-differs', f'{full}.{m}: docstring {dgot!r}, inspect.getdoc gives {dexp!r} ({label})', cls=full, **w)
                    shown = rendered.get((full, m))
                    if shown is not None:
                        res.c('rendered_doc_compared')
                        if shown != re.findall(r'doc of (\w+\.\w+)', dexp or ''):
                            res.v('C05:rendered-inherited-doc-differs', f'{full}.{m}: the page shows the docstring of {shown}, attribute lookup along the MRO yields {dexp!r} ({label})', cls=full, **w)
                    # overrides note
                    res.c('overrides_compared')
                    sup = next((c for c in gen_mro[1:] if m in c.__dict__), None)
                    targets: List[str] = []
                    orig_taglink = epydoc2stan.taglink

                    def rec_taglink(o: Any, page_url: str, *a: Any, **kw: Any) -> Any:
                        targets.append(o.fullName())
                        return orig_taglink(o, page_url, *a, **kw)
                    epydoc2stan.taglink = rec_taglink  # type: ignore[assignment]
                    try:
                        it = pages.get_override_info(obj, m)
                        first = next(iter(it), None)
                    finally:
                        epydoc2stan.taglink = orig_taglink  # type: ignore[assignment]
                    oexp = f'{F(Q(sup))}.{m}' if sup else None
                    is_over = first is not None and bool(getattr(first, 'children', None)) and first.children[0] == 'overrides '
                    ogot = targets[0] if (is_over and targets) else None
                    if oexp != ogot and not (oexp is None and ogot is None):
                        res.v('C05:overrides-differs', f'{full}.{m}: "overrides" note names {ogot}, super() reaches {oexp} ({label})', cls=full, **w)
        # inherited member tables
        res.c('tables_compared')
        texp = []
        seen: set = set()
        for c in gen_mro:
            own_names = [m for m in MEMBERS if m in c.__dict__ and m not in seen and f'{F(Q(c))}.{m}' not in hidden]
            seen.update(m for m in MEMBERS if m in c.__dict__)
            if own_names:
                texp.append((F(Q(c)), sorted(own_names)))
        tgot = []
        for via, attrs in util.class_members(obj):
            names_ = sorted(a.name for a in attrs if a.name in MEMBERS)
            if names_:
                tgot.append((via[0].fullName(), names_))
        if texp != tgot:
            res.v('C05:member-table-differs', f'{full}: inherited tables {tgot}, run-time definers {texp} ({label})', cls=full, **w)
        # the "Inherited from" tables of the class page itself (a sample, and every class without members of its own)
        own_any = any(m in cls.__dict__ for m in MEMBERS)
        if not own_any or zlib.crc32(f'{label}/{full}'.encode()) % 5 == 0:
            try:
                page = pages.ClassPage(obj, _lookup())
                clones = page.baseTables(None, tags.div(slot('baseName'), '|', slot('baseTable')))
                pgot = []
                for cl in clones:
                    head, _, table = flatten(cl).partition('|')
                    hrefs = re.findall(r'href="([^"#]+)\.html#(\w+)"', table)
                    via = re.findall(r'href="([^"#]+)\.html"', head)
                    names_ = sorted({mname for _, mname in hrefs if mname in MEMBERS})
                    if names_:
                        pgot.append((via[0] if via else '?', names_, sorted({d for d, _ in hrefs})))
            except Exception as e:  # noqa: BLE001
                res.v(f'C05:class-page-tables-raise:{type(e).__name__}', f'{full}: rendering the inherited tables raised {e!r} ({label})', cls=full, **w)
            else:
                res.c('page_tables_compared')
                pexp = [(d, ns, [d]) for d, ns in texp if d != F(full)]
                if pgot != pexp:
                    res.v('C05:class-page-inherited-tables-differ', f'{full}: the class page has inherited tables {pgot}, run-time definers {pexp} ({label})', cls=full, **w)
    res.c('evaluations')


def _judge_system(res: core.Res, system: Any, label: str, w: Dict[str, Any]) -> None:
    """every class whose ancestors are all documented classes: pydoctor's linearisation against type() over dummy classes that mirror
    the resolved base graph; a hierarchy type() refuses must be reported for that class"""
    from pydoctor import model
    from vf.mon import msgs
    mro_msgs = [m[1] for m in msgs.messages(system) if m[0] == 'mro']
    dummies: Dict[int, Any] = {}
    failed: Dict[int, str] = {}

    def dummy(c: Any, depth: int = 0) -> Any:
        if id(c) in dummies or id(c) in failed:
            return dummies.get(id(c))
        if depth > 60 or any(b is None for b in c.baseobjects):
            failed[id(c)] = 'unresolved-base'
            return None
        bases = []
        for b in c.baseobjects:
            d = dummy(b, depth + 1)
            if d is None:
                failed[id(c)] = 'propagated:' + failed.get(id(b), '?')
                return None
            bases.append(d)
        try:
            dummies[id(c)] = type(f'D{len(dummies)}', tuple(bases) or (object,), {'_pd': c})
        except TypeError as e:
            failed[id(c)] = f'TypeError: {e}'
            return None
        return dummies[id(c)]
    classes_ = [o for o in system.allobjects.values() if isinstance(o, model.Class)]
    for c in classes_:
        try:
            d = dummy(c)
        except RecursionError:
            continue
        reported = any(f':{c.linenumber}:' in t and c.description in t for t in mro_msgs)
        if d is None:
            err = failed.get(id(c), '')
            if err.startswith('TypeError') and ('consistent method resolution' in err or 'duplicate base' in err):
                res.c('project_inconsistent_judged')
                if not reported:
                    res.v('C05:inconsistent-not-reported', f'{label}: type() refuses the hierarchy pydoctor resolved for {c.fullName()} ({err}) but nothing is reported', cls=c.fullName(), **w)
            continue
        res.c('project_classes_judged')
        exp = [x._pd.fullName() for x in d.__mro__ if hasattr(x, '_pd')]
        got = [x.fullName() for x in c.mro(False, True)] if c._mro is not None else None
        if got is None:
            continue
        if reported:
            res.v('C05:consistent-but-reported', f'{label}: the hierarchy resolved for {c.fullName()} is consistent for type() but pydoctor reports a linearisation error', cls=c.fullName(), **w)
        elif got != exp:
            res.v('C05:mro-differs', f'{label}: {c.fullName()}: pydoctor mro {got}, type() over the same resolved bases gives {exp}', cls=c.fullName(), **w)


def run_case(case: Dict[str, Any]) -> core.Res:
    res = core.Res()
    if case['part'] == 'GP':
        from pathlib import Path
        from vf.gen import projrun
        try:
            system = projrun.build_system([Path(case['path'])])
        except Exception:  # noqa: BLE001 -- C01's business
            res.c('corpus_analysis_raised')
            return res
        _judge_system(res, system, Path(case['path']).name, {'path': case['path']})
        res.c('evaluations')
        res.distinct('GP:' + case['path'])
        res.sample({'package': case['path']})
        return res
    if case['part'] == 'G':
        from vf.gen import project, projrun
        from vf.mon import sched
        specs = [project.generate(core.rng('C05G', case['seed'], case['k'] + j), project.Features.history()) for j in range(case['n'])]
        with projrun.TmpProjects(specs, seed=('C05G', case['seed'], case['k'])) as tp:
            for j, spec in enumerate(specs):
                for o in range(3):
                    label = f"C05G:{case['seed']}:{case['k'] + j}/order{o}"
                    try:
                        system = projrun.build_system(tp.roots[j], order=None if o == 0 else (lambda system_, rr=core.rng('order', label): sched.permute(system_, rr)))
                    except Exception:  # noqa: BLE001 -- C02's business
                        res.c('project_analysis_raised')
                        continue
                    _judge_system(res, system, label, {'project': label, 'sources': project.sources(spec, seed=(('C05G', case['seed'], case['k']), j))})
                    res.c('evaluations')
                    res.distinct(label)
        res.sample({'projects': f"C05G:{case['seed']}:{case['k']}"})
        return res
    if case['part'] == 'RE':
        for j in range(case['n']):
            mods, final = _gen_reexport(case['seed'], case['k'] + j)
            _judge(res, mods, f"RE:{case['seed']}:{case['k'] + j}", final)
            res.c('reexported_classes', len(final))
        res.sample({'reexported': {k: v[-400:] for k, v in mods.items()}})
        return res
    if case['part'] == 'RC':
        for j in range(case['n']):
            mods = _gen_random(case['seed'], case['k'] + j, cyclic=True)
            r = core.rng('C05', 'RC', case['seed'], case['k'] + j)
            names = list(mods)
            # Python enters at the module of the first class (what its author would import first); pydoctor is given the modules in two
            # other orders: the same sources, the same hierarchy
            first = next((m for m, src in mods.items() if 'class K0' in src), names[0])
            entry = [first] + [m for m in names if m != first]
            for o in range(2):
                order = list(names)
                r.shuffle(order)
                _judge(res, {m: mods[m] for m in order}, f"RC:{case['seed']}:{case['k'] + j}/o{o}", None, entry)
        res.sample({'cyclic': {k: v[:400] for k, v in mods.items()}})
        return res
    if case['part'] == 'X':
        for idx in case['idx']:
            mods = _gen_exhaustive(case['n'], idx)
            _judge(res, mods, f"X{case['n']}:{idx}")
        res.sample({'hierarchy': f"n={case['n']} idx={case['idx'][0]}", 'source': next(iter(_gen_exhaustive(case['n'], case['idx'][0]).values()))[:600]})
    else:
        for j in range(case['n']):
            mods = _gen_random(case['seed'], case['k'] + j)
            _judge(res, mods, f"R:{case['seed']}:{case['k'] + j}", hide=core.rng('C05', 'hide', case['seed'], case['k'] + j) if (case['k'] + j) % 3 == 0 else None)
        res.sample({'random': {k: v[:400] for k, v in mods.items()}})
    return res


def finish(agg: Dict[str, Any], tier: str, seed: int) -> None:
    agg['exhaustive'] = True
    agg['extra'] = {'exhaustive_part': f'all hierarchies with n<=5 classes ({sum(_count(n) for n in range(1, 6))}); n=6 sampled'}
