"""C17 -- written inventories read back faithfully; malformed remote ones are survivable."""
from __future__ import annotations

import io
import os
import re
import shutil
import tempfile
import traceback
import zlib
from pathlib import Path
from typing import Any, Dict, List, Optional, Tuple

from vf import core

ID = 'C17'
LEVEL = 'exploration'
RULE = ('part RT (round trip): objects.inv written by SphinxInventoryWriter for generated projects, a fixture with '
        'non-ASCII/nested/hidden/duplicate names and real packages is read back by pydoctor\'s SphinxInventory and by '
        'sphinx.util.inventory.InventoryFile; entries must be exactly the visible documented objects reachable through '
        'contents, each once, mapping to base + obj.url. part FZ (robustness): structured byte-level fuzz of remote '
        'inventories (header variants x payload encodings x line shapes x byte flips/truncations) and single-line '
        'corruptions of valid inventories: update() never raises, other lines resolve unchanged, a dropped line is '
        'reported. A fuzz input is non-trivial if it is not a valid inventory; distinct by content hash.')
ASSUME = ['Sphinx 9.1 loader is a second, independent reader', 'zlib and the UTF-8 decoder belong to the interpreter',
          'a corrupted line that still parses (possibly under another name/domain) is usable by definition']
DECIDING = {'fuzz_inputs': 5000, 'line_corruptions': 2000, 'roundtrip_entries': 500, 'sphinx_entries': 500, 'other_lines_checked': 5000, 'inventories_with_many_damaged_lines': 500, 'big_inventories': 8}
CPU_S = 900
CRASH_IS_VIOLATION = True

SPHINX_LINE = re.compile(r'(.+?)\s+(\S+)\s+(-?\d+)\s+?(\S*)\s+(.*)')

FIXTURE = {
    'fx/__init__.py': '"""pkg"""\nfrom ._impl import Moved\n__all__ = ["Moved", "é_func"]\ndef é_func(): pass\n',
    'fx/_impl.py': 'class Moved:\n    """m"""\n    def meth(self): pass\n    class Inner:\n        attr = 1\n        """doc"""\n'
                   'class Hidden:\n    def gone(self): pass\n'
                   'def dup(): pass\ndef dup(): pass\n'
                   'class DC:\n    a = 1\nclass DC:\n    b = 2\n',
    'fx/sub/__init__.py': '',
    'fx/sub/mod.py': 'X = 1\n"""x"""\nclass C:\n    @property\n    def p(self): return 1\n    @classmethod\n    def cm(cls): pass\n    def __init__(self): self.iv = 1\n',
    'fx/__main__.py': 'def main(): pass\n',
    'fx/fx.py': 'def helper(): pass\nclass fx:\n    def fx(self): pass\n',
}


def cases(tier: str, seed: int) -> List[Dict[str, Any]]:
    out: List[Dict[str, Any]] = []
    n = 160000 if tier == 'quick' else 2000000
    per = 5000 if tier == 'quick' else 20000
    for k in range(0, n, per):
        out.append({'part': 'FZ', 'seed': seed, 'k': k, 'n': per})
    n = 32000 if tier == 'quick' else 400000
    for k in range(0, n, 1000):
        out.append({'part': 'LC', 'seed': seed, 'k': k, 'n': 1000})
    for k in range(0, 16 if tier == 'quick' else 256, 2):
        out.append({'part': 'BIG', 'seed': seed, 'k': k, 'n': 2})
    out.append({'part': 'RT', 'fixture': True})
    from vf.gen import corpus
    r = core.rng(seed, 'C17', 'corpus')
    paths = corpus.pick(r, 12 if tier == 'quick' else 120, max_bytes=1_500_000)
    for p in paths:
        out.append({'part': 'RT', 'path': p})
    try:
        from vf.gen import project  # noqa: F401
        nproj = 60 if tier == 'quick' else 1500
        for k in range(0, nproj, 10):
            out.append({'part': 'RT', 'gen': [seed, k], 'n': 10})
    except ImportError:
        pass
    return out


def worker_init() -> None:
    from vf.mon import msgs
    msgs.install()


class StubCache:
    def __init__(self, data: Dict[str, Optional[bytes]]) -> None:
        self.data = data

    def get(self, url: str) -> Optional[bytes]:
        return self.data.get(url)

    def close(self) -> None:
        pass


HEADER = b'# Sphinx inventory version 2\n# Project: p\n# Version: 1\n# The rest of this file is compressed with zlib.\n'


def _valid_lines(r, n: int) -> List[str]:
    out = []
    for i in range(n):
        name = f'pkg.mod{i % 3}.obj_{i}'
        typ = r.choice(['py:class', 'py:function', 'py:module', 'py:method', 'py:attribute'])
        loc = r.choice([f'pkg.mod{i % 3}.html#obj_{i}', f'api/{name}.html', 'x.html#$', f'{name}.html'])
        disp = r.choice(['-', '-', 'Display Name', name])
        out.append(f'{name} {typ} {r.choice([-1, 1, 0, 2])} {loc} {disp}')
    return out


def _inv(lines: List[str], header: bytes = HEADER) -> bytes:
    return header + zlib.compress(('\n'.join(lines) + '\n').encode('utf-8', 'surrogatepass'))


def _load(data_by_url: List[Tuple[str, Optional[bytes]]]):
    from pydoctor.sphinx import SphinxInventory
    log: List[Tuple[str, str, int]] = []

    def logger(section: str, msg: str, thresh: int = 0, **kw: Any) -> None:
        log.append((section, msg, thresh))
    inv = SphinxInventory(logger=logger)
    cache = StubCache(dict(data_by_url))
    for url, _ in data_by_url:
        inv.update(cache, url)
    return inv, log


WEIRD_LINES = [
    '', ' ', 'a', 'a b', 'a py:class', 'a py:class 1', 'a py:class 1 ', 'a py:class 1 loc', 'a py:class 1 loc ', 'a py:class x loc -',
    'a py:class 1 2 3 4', '1 2 3 4 5', 'name with spaces py:class 1 loc -', 'n py:class -1 loc multi word display', 'n std:label 1 loc -',
    'n py:class 1 loc$ -', 'n\tpy:class\t1\tloc\t-', 'n py:class 1  -', '  n py:class 1 loc -', 'n py:class 1 loc -\r', 'é py:class 1 é.html -',
    'n py:class ١ loc -', 'n py:class 1e3 loc -', 'n py:class +1 loc -', 'n py:class 1_0 loc -', 'n py:class  1 loc -', 'x' * 100000,
    'n ' * 5000 + 'py:class 1 loc -', 'n py:class 1 loc -\x00', '\ud800 py:class 1 loc -', 'n py:class ' + '9' * 5000 + ' loc -', '# comment', '#', 'n py 1 loc -',
    'n :class 1 loc -', 'n py: 1 loc -', 'n py:class 1 http://abs/loc -', 'n py:class 1 # -',
]


def _fuzz_input(r) -> Tuple[bytes, str]:
    kind = r.randrange(16)
    lines = _valid_lines(r, r.randint(0, 6))
    for _ in range(r.randint(0, 4)):
        lines.insert(r.randint(0, len(lines)), r.choice(WEIRD_LINES))
    text = ('\r\n' if r.random() < .1 else '\n').join(lines) + ('\n' if r.random() < .8 else '')
    raw = text.encode('utf-8', 'surrogatepass')
    header = r.choice([HEADER, b'', b'# Sphinx inventory version 1\n# Project: p\n# Version: 1\n', b'#\n', b'# a\n# b\n# c\n# d\n# e\n',
                       HEADER.replace(b'\n', b'\r\n'), b'#', b'# no newline at end', HEADER[:-1], b'\n' + HEADER, b'##\n#\n',
                       b'# Project: p\n# Sphinx inventory version 2\n'])
    if kind == 0:
        return header + zlib.compress(raw), 'zlib'
    if kind == 1:
        return header + raw, 'not-compressed'
    if kind == 2:
        z = zlib.compress(raw)
        return header + z[:r.randint(0, len(z))], 'truncated-zlib'
    if kind == 3:
        return header + zlib.compress(raw + bytes([r.randrange(128, 256) for _ in range(r.randint(1, 5))])), 'invalid-utf8'
    if kind == 4:
        data = bytearray(header + zlib.compress(raw))
        for _ in range(r.randint(1, 4)):
            if data:
                data[r.randrange(len(data))] = r.randrange(256)
        return bytes(data), 'byte-flips'
    if kind == 5:
        data = header + zlib.compress(raw)
        return data[:r.randint(0, len(data))], 'truncated-file'
    if kind == 6:
        return bytes(r.randrange(256) for _ in range(r.randint(0, 200))), 'random-bytes'
    if kind == 7:
        return header + zlib.compress(raw, wbits=-15), 'raw-deflate'
    if kind == 8:
        return header + zlib.compress(raw) + b'trailing garbage', 'trailing-garbage'
    if kind == 9:
        return b'', 'empty'
    if kind == 10:
        return header + zlib.compress(b''), 'empty-payload'
    if kind in (12, 13, 14, 15):
        # "wrongly compressed": the payload in another container format, whole or cut short
        import bz2
        import gzip
        import lzma
        name, comp = r.choice([('gzip', gzip.compress), ('bz2', bz2.compress), ('lzma', lzma.compress), ('zlib-gzip-wrapper', lambda b: zlib.compressobj(wbits=31).compress(b) + zlib.compressobj(wbits=31).flush()),
                               ('zlib-twice', lambda b: zlib.compress(zlib.compress(b)))])
        z = comp(raw)
        if kind >= 14:
            return header + z[:r.randint(0, len(z))], f'truncated-{name}'
        return header + z, name
    return header + zlib.compress(raw.replace(b' ', b'  ')), 'double-spaces'


def _run_FZ(case: Dict[str, Any], res: core.Res) -> None:
    import hashlib
    r = core.rng(case['seed'], 'C17', 'FZ', case['k'])
    good_lines = ['stable.A py:class 1 stable.A.html -', 'stable.f py:function 1 stable.html#f -']
    good = _inv(good_lines)
    for _ in range(case['n']):
        data, kind = _fuzz_input(r)
        res.c('fuzz_inputs')
        res.c('evaluations')
        res.setadd('fuzz_kinds', kind)
        url_bad = r.choice(['http://x/objects.inv', 'objects.inv', 'http://x/', '', 'http://x/y/z/objects.inv'])
        order = [('http://good/objects.inv', good), (url_bad, data)]
        if r.random() < .5:
            order.reverse()
        try:
            inv, log = _load(order)
        except Exception as e:  # noqa: BLE001
            tb = traceback.extract_tb(e.__traceback__)[-1]
            res.v(f'C17:update-raises:{type(e).__name__}:{tb.name}', f'SphinxInventory.update raised {e!r} in {tb.name} on a {kind} input ({data[:80]!r}...)',
                  kind=kind, data_hex=data[:4000].hex(), url=url_bad)
            continue
        res.distinct(hashlib.sha1(data).hexdigest()[:12])
        for name, exp in (('stable.A', 'http://good/stable.A.html'), ('stable.f', 'http://good/stable.html#f')):
            got = inv.getLink(name)
            res.c('other_lines_checked')
            if got != exp and not (order[-1][0] != 'http://good/objects.inv' and got is not None and _redefines(data, name)):
                res.v('C17:other-inventory-affected', f'after loading a {kind} inventory, {name} resolves to {got!r} instead of {exp!r}', kind=kind, data_hex=data[:4000].hex())
        # unusable file-level payloads must be reported
        if kind in ('not-compressed', 'random-bytes', 'raw-deflate', 'gzip', 'bz2', 'lzma', 'zlib-gzip-wrapper', 'truncated-gzip', 'truncated-bz2', 'truncated-lzma') or (kind == 'invalid-utf8'):
            if data and len(url_bad.rsplit('/', 1)) == 2 and not any(t < 0 for _, _, t in log) and not _decodes(data):
                res.v('C17:unusable-payload-not-reported', f'{kind} payload produced no report', kind=kind, data_hex=data[:4000].hex())
    res.sample({'fuzz_kind': kind, 'bytes': data[:60].hex()})


def _payload(data: bytes) -> Optional[str]:
    while True:
        parts = data.split(b'\n', 1)
        if len(parts) != 2 or not parts[0].startswith(b'#'):
            break
        data = parts[1]
    try:
        return zlib.decompress(data).decode('utf-8')
    except Exception:  # noqa: BLE001
        return None


def _decodes(data: bytes) -> bool:
    return _payload(data) is not None


def _redefines(data: bytes, name: str) -> bool:
    p = _payload(data)
    return p is not None and name in p


MUTATIONS = ['drop-col', 'dup-col', 'prio-text', 'empty', 'spaces', 'garbage', 'truncate', 'no-display', 'two-prio', 'tab', 'insert-nul', 'domain', 'swap-cols', 'cr']


def _corrupt(r, line: str) -> Tuple[str, str]:
    m = r.choice(MUTATIONS)
    parts = line.split(' ')
    if m == 'drop-col':
        del parts[r.randrange(len(parts))]
    elif m == 'dup-col':
        i = r.randrange(len(parts))
        parts.insert(i, parts[i])
    elif m == 'prio-text':
        parts[2] = r.choice(['x', '', '1.5', '--1', 'one'])
    elif m == 'empty':
        parts = ['']
    elif m == 'spaces':
        parts = [' ' * r.randint(1, 5)]
    elif m == 'garbage':
        parts = [''.join(chr(r.randrange(32, 0x2000)) for _ in range(r.randint(1, 40)))]
    elif m == 'truncate':
        s = ' '.join(parts)
        parts = [s[:r.randint(0, len(s))]]
    elif m == 'no-display':
        parts = parts[:4]
    elif m == 'two-prio':
        parts.insert(2, '7')
    elif m == 'tab':
        parts = ['\t'.join(parts)]
    elif m == 'insert-nul':
        s = ' '.join(parts)
        i = r.randint(0, len(s))
        parts = [s[:i] + '\x00' + s[i:]]
    elif m == 'domain':
        parts[1] = r.choice(['std:label', 'c:function', 'py', ':', 'js:class'])
    elif m == 'swap-cols':
        i, j = r.randrange(len(parts)), r.randrange(len(parts))
        parts[i], parts[j] = parts[j], parts[i]
    elif m == 'cr':
        parts[-1] = parts[-1] + '\r'
    return ' '.join(parts), m


def _run_LC(case: Dict[str, Any], res: core.Res) -> None:
    r = core.rng(case['seed'], 'C17', 'LC', case['k'])
    for _ in range(case['n']):
        many = r.random() < .3
        lines = _valid_lines(r, r.randint(3, 9) if not many else r.randint(14, 40))
        inv0, log0 = _load([('http://h/objects.inv', _inv(lines))])
        names = [l.split(' ')[0] for l in lines]
        before = {n: inv0.getLink(n) for n in names}
        if any(v is None for v in before.values()) or log0:
            res.v('C17:valid-inventory-not-loaded', f'valid inventory gave {before} log={log0}', lines=lines)
            continue
        i = r.randrange(len(lines))
        bad, mut = _corrupt(r, lines[i])
        lines2 = list(lines)
        lines2[i] = bad
        damaged = {i: bad}
        if many:
            # many damaged lines in one inventory (anywhere: before, between and after the intact ones)
            for i2 in r.sample(range(len(lines)), r.randint(2, min(25, len(lines) - 2))):
                if i2 != i:
                    damaged[i2] = _corrupt(r, lines[i2])[0]
                    lines2[i2] = damaged[i2]
            res.c('inventories_with_many_damaged_lines')
        res.c('line_corruptions')
        res.c('evaluations')
        res.setadd('mutations', mut)
        try:
            inv1, log1 = _load([('http://h/objects.inv', _inv(lines2))])
        except Exception as e:  # noqa: BLE001
            tb = traceback.extract_tb(e.__traceback__)[-1]
            res.v(f'C17:update-raises:{type(e).__name__}:{tb.name}', f'SphinxInventory.update raised {e!r} in {tb.name}; corrupted line {bad!r} ({mut})', lines=lines2, mutation=mut)
            continue
        res.distinct(f'{mut}:{bad[:40]}')
        for j, n in enumerate(names):
            if j in damaged:
                continue
            res.c('other_lines_checked')
            if inv1.getLink(n) != before[n]:
                # a corrupted line may legitimately re-define another line's name only if it now carries that name
                if any(b.split(' ')[0] == n or (len(b.splitlines()) > 1) for b in damaged.values()):
                    continue
                res.v('C17:other-line-affected', f'corrupting line {i} ({mut}: {bad!r}) changed {n}: {before[n]!r} -> {inv1.getLink(n)!r}', lines=lines2, mutation=mut)
        # silently dropped?
        reported = any(t < 0 for _, _, t in log1)
        nlinks = len(inv1._links)
        if nlinks < len(lines) and not reported and len(damaged) == 1:
            sub = bad.splitlines() or ['']
            legit = True
            for s in sub:
                m = SPHINX_LINE.match(s.rstrip())
                ignorable = (s.strip() == '') or (m is not None and not m.group(2).startswith('py:')) or _pyd_nonpy(s)
                dup_name = _pyd_name(s) in [nm for j, nm in enumerate(names) if j != i]
                if not (ignorable or dup_name):
                    legit = False
            if not legit:
                res.v('C17:line-dropped-silently', f'line {bad!r} ({mut}) was dropped without any report', lines=lines2, mutation=mut)
    res.sample({'corrupted_line': bad, 'mutation': mut})


def _pyd_split(s: str) -> Optional[Tuple[str, str]]:
    """name/type as a whitespace-splitting reader locating the first numeric column would see them"""
    parts = s.split(' ')
    for idx in range(2, len(parts)):
        try:
            int(parts[idx])
        except ValueError:
            continue
        return ' '.join(parts[:idx - 1]), parts[idx - 1]
    return None


def _pyd_nonpy(s: str) -> bool:
    x = _pyd_split(s)
    return x is not None and not x[1].startswith('py:')


def _pyd_name(s: str) -> Optional[str]:
    x = _pyd_split(s)
    return x[0] if x else None


# ---- round trip ----------------------------------------------------------------------------------

def _expected(system: Any) -> Dict[str, str]:
    from vf.ref import urls
    exp: Dict[str, str] = {}

    def rec(objs: Any) -> None:
        for o in objs:
            if not o.isVisible:
                continue
            exp.setdefault(o.fullName(), urls.ref_url(o))
            rec(o.contents.values())
    rec(system.rootobjects)
    return exp


def _roundtrip(res: core.Res, system: Any, label: str) -> None:
    from pydoctor.sphinx import SphinxInventoryWriter
    tmp = tempfile.mkdtemp(prefix='vf17-')
    try:
        w = SphinxInventoryWriter(logger=system.msg, project_name=system.projectname, project_version='1.0')
        w.generate(subjects=system.rootobjects, basepath=tmp)
        data = Path(tmp, 'objects.inv').read_bytes()
    finally:
        shutil.rmtree(tmp, ignore_errors=True)
    exp = _expected(system)
    # reader 1: pydoctor
    inv, log = _load([('http://base/api/objects.inv', data)])
    errs = [m for _, m, t in log if t < 0]
    if errs:
        res.v('C17:own-inventory-reported', f'{label}: reading back our own inventory reports {errs[:2]}', label=label)
    got = {n: inv.getLink(n) for n in inv._links}
    # count lines per name
    payload = _payload(data) or ''
    counts: Dict[str, int] = {}
    for line in payload.splitlines():
        m = SPHINX_LINE.match(line.rstrip())
        if m:
            counts[m.group(1)] = counts.get(m.group(1), 0) + 1
    for n, url in exp.items():
        res.c('roundtrip_entries')
        link = inv.getLink(n)
        if link is None:
            res.v('C17:entry-missing', f'{label}: visible object {n} has no inventory entry (pydoctor reader)', label=label, name=n)
        elif link != 'http://base/api/' + url:
            res.v('C17:entry-link-differs', f'{label}: {n} -> {link}, documented at {url}', label=label, name=n)
        if counts.get(n, 0) > 1:
            res.v('C17:entry-duplicated', f'{label}: {n} has {counts[n]} inventory lines', label=label, name=n)
    for n in got:
        if n not in exp:
            res.v('C17:entry-unexpected', f'{label}: inventory entry {n} is not a visible documented object', label=label, name=n)
    # reader 2: Sphinx
    try:
        from sphinx.util.inventory import InventoryFile
        sinv = InventoryFile.loads(data, uri='http://base/api')
        sdata = sinv.data
    except Exception as e:  # noqa: BLE001
        res.v('C17:sphinx-cannot-load', f'{label}: Sphinx cannot load the written inventory: {e!r}', label=label)
        return
    sgot: Dict[str, List[str]] = {}
    for typ, items in sdata.items():
        for name, item in items.items():
            uri = item.uri if hasattr(item, 'uri') else item[2]
            sgot.setdefault(name, []).append(uri)
    for n, url in exp.items():
        res.c('sphinx_entries')
        uris = sgot.get(n)
        if not uris:
            res.v('C17:entry-missing-sphinx', f'{label}: Sphinx finds no entry for visible object {n}', label=label, name=n)
        elif len(uris) != 1:
            res.v('C17:entry-duplicated', f'{label}: Sphinx finds {len(uris)} entries for {n}', label=label, name=n)
        elif uris[0] != 'http://base/api/' + url:
            res.v('C17:entry-link-differs-sphinx', f'{label}: Sphinx maps {n} to {uris[0]}, documented at {url}', label=label, name=n)
    for n in sgot:
        if n not in exp:
            res.v('C17:entry-unexpected', f'{label}: Sphinx finds entry {n}, which is not a visible documented object', label=label, name=n)
    res.distinct(label)
    res.c('evaluations')


def _system_for(paths: List[Path], privacy: List[str] = ()) -> Any:  # type: ignore[assignment]
    from pydoctor import model
    from pydoctor.options import Options
    opts = Options.from_args([f'--privacy={p}' for p in privacy] + ['--project-name=proj'])
    opts.verbosity = -10
    system = model.System(opts)
    system.projectname = 'proj'
    b = system.systemBuilder(system)
    for p in paths:
        b.addModule(p)
    b.buildModules()
    return system


def _run_RT(case: Dict[str, Any], res: core.Res) -> None:
    if case.get('fixture'):
        tmp = Path(tempfile.mkdtemp(prefix='vf17fx-'))
        try:
            for rel, src in FIXTURE.items():
                p = tmp / rel
                p.parent.mkdir(parents=True, exist_ok=True)
                p.write_text(src, encoding='utf-8')
            for privacy in ([], ['HIDDEN:fx._impl.Hidden'], ['HIDDEN:fx.sub', 'PUBLIC:fx.sub.mod'], ['PRIVATE:**', 'HIDDEN:**.meth']):
                system = _system_for([tmp / 'fx'], privacy)
                _roundtrip(res, system, f'fixture{privacy}')
            # several roots
            (tmp / 'single.py').write_text('def f(): pass\nclass K: pass\n')
            system = _system_for([tmp / 'fx', tmp / 'single.py'])
            _roundtrip(res, system, 'fixture+single')
            system = _system_for([tmp / 'single.py'])
            _roundtrip(res, system, 'single-root-module')
        finally:
            shutil.rmtree(tmp, ignore_errors=True)
        res.sample({'roundtrip': 'fixture'})
    elif 'path' in case:
        system = _system_for([Path(case['path'])])
        _roundtrip(res, system, os.path.basename(case['path']))
        res.sample({'roundtrip': case['path'], 'objects': len(system.allobjects)})
    else:
        from vf.gen import project
        for j in range(case['n']):
            spec = project.generate(core.rng('proj', *case['gen'], j), project.Features.rendering())
            tmp = Path(tempfile.mkdtemp(prefix='vf17g-'))
            try:
                roots = project.write(spec, tmp)
                system = _system_for(roots, spec.privacy)
                _roundtrip(res, system, f"gen{case['gen']}:{j}")
            finally:
                shutil.rmtree(tmp, ignore_errors=True)
        res.sample({'roundtrip': f"generated {case['gen']}"})


def _run_BIG(case: Dict[str, Any], res: core.Res) -> None:
    """large valid inventories (hundreds of KiB of text) of names written in several scripts, shifted byte by byte: every line resolves"""
    r = core.rng(case['seed'], 'C17', 'BIG', case['k'])
    words = ['obj', 'h\u00e9llo', '\u043a\u043b\u0430\u0441\u0441', '\u540d\u524d', '\u03b1\u03b2\u03b3', 'z\U0001d4d0']
    for shift in range(case['k'], case['k'] + case['n']):
        nl = r.randint(1500, 6000)
        lines = ['pad' + 'x' * shift + ' py:class 1 pad.html -']       # (an entry whose only purpose is to shift the bytes that follow)
        names = []
        for i in range(nl):
            name = f'pkg.m{i % 7}.{words[(i + shift) % len(words)]}_{i}'
            names.append(name)
            lines.append(f'{name} py:class 1 pkg.m{i % 7}.html#{words[i % len(words)]}_{i} -')
        try:
            inv, log = _load([('http://h/objects.inv', _inv(lines))])
        except Exception as e:  # noqa: BLE001
            res.v(f'C17:update-raises:{type(e).__name__}:big', f'SphinxInventory.update raised {e!r} on a valid inventory of {nl} lines', shift=shift, lines=nl)
            continue
        res.c('big_inventories')
        res.c('evaluations')
        res.distinct(f'big:{shift}')
        missing = [n for n in names if inv.getLink(n) is None]
        res.c('big_inventory_entries', len(names))
        if missing or log:
            res.v('C17:valid-inventory-not-loaded', f'a valid inventory of {nl} lines ({sum(len(l.encode()) + 1 for l in lines)} bytes of text, shifted by {shift}): {len(missing)} names do not resolve '
                  f'(first {missing[:2]}), messages {log[:2]}', shift=shift, lines=nl)
    res.sample({'big_inventory_shift': case['k']})


def run_case(case: Dict[str, Any]) -> core.Res:
    res = core.Res()
    {'FZ': _run_FZ, 'LC': _run_LC, 'RT': _run_RT, 'BIG': _run_BIG}[case['part']](case, res)
    return res
