"""C06 -- the result does not depend on the order in which modules are analysed (metamorphic over schedules)."""
from __future__ import annotations

import re
import traceback
from typing import Any, Dict, List, Optional, Tuple

from vf import core
from vf.gen import project, projrun

ID = 'C06'
LEVEL = 'exploration'
RULE = ('generated projects with cross-module bases, star imports, single-re-exporter __all__ moves, several roots and '
        '(separately) import cycles under TYPE_CHECKING / function-local imports; a directed family of real module-level cycles (the defining module imports its single re-exporter back, at the bottom or between two classes; 72 combinations of re-export, back-import and consumer styles, all orders); real packages. For small projects every '
        'reachable processing order (own __init__ first, then children in any order, roots in any order) is realised by '
        'permuting System.unprocessed_modules before process(); larger ones are sampled. The canonical dump of '
        'System.allobjects (type, kind, docstring, parent, bases, mro, __all__, re-export location) must be the same for '
        'all orders; with cycles only the class hierarchy. Renamed twins (same structure, module names whose alphabetical '
        'order differs) are analysed without injection and compared modulo the renaming. Distinct: realised schedules '
        '(the order processModule actually followed); a project is non-trivial if >=2 distinct schedules were realised.')
ASSUME = ['reachable orders are those produced by sorted(iterdir()) under renaming and by the order of the command-line paths',
          'objects re-exported by more than one module are excluded from the location comparison; message order is not compared']
DECIDING = {'schedules_run': 800, 'distinct_realised_schedules': 400, 'projects_with_2_schedules': 80, 'renamed_twins': 40, 'objects_compared': 20000,
            'cycle_projects': 20, 'directed_cycle_projects': 60, 'directed_sibling_projects': 10}
CPU_S = 900
PER = 5


def cases(tier: str, seed: int) -> List[Dict[str, Any]]:
    out: List[Dict[str, Any]] = []
    n = 150 if tier == 'quick' else 3000
    for k in range(0, n, PER):
        out.append({'part': 'G', 'seed': seed, 'k': k, 'n': PER, 'cycles': False, 'max_orders': 12 if tier == 'quick' else 40})
    nc = 60 if tier == 'quick' else 1000
    for k in range(0, nc, PER):
        out.append({'part': 'G', 'seed': seed, 'k': 100000 + k, 'n': PER, 'cycles': True, 'max_orders': 8 if tier == 'quick' else 24})
    nt = 60 if tier == 'quick' else 1000
    for k in range(0, nt, PER):
        out.append({'part': 'T', 'seed': seed, 'k': k, 'n': PER})
    # directed: real module-level import cycles of the "import at the bottom" idiom around a single-re-exporter move
    for i in range(len(_DIRECTED_PARAMS)):
        out.append({'part': 'D', 'idx': i})
    for i in range(len(_DIRECTED_STAR)):
        out.append({'part': 'D', 'star': i})
    for i in range(len(_DIRECTED_SIB)):
        out.append({'part': 'D', 'sib': i})
    for i in range(len(_DIRECTED_CHAIN)):
        out.append({'part': 'D', 'chain': i})
    for name in _DIRECTED_2ROOTS:
        out.append({'part': 'D', 'two': name})
    from vf.gen import corpus
    r = core.rng(seed, 'C06', 'corpus')
    cands = [p for p, nf, size in corpus.roots() if nf >= 3 and size < (300_000 if tier == 'quick' else 1_500_000)]
    r.shuffle(cands)
    for p in cands[:3 if tier == 'quick' else 40]:
        out.append({'part': 'P', 'path': p, 'orders': 4})
    return out


import itertools as _it
_DIRECTED_PARAMS = list(_it.product(['name', 'star', 'name-as'], ['import pkg.api', 'from pkg import api', 'from . import api', 'import pkg.api as _a'],
                                    ['from-api', 'import-api', 'from-pkg'], ['bottom', 'middle']))


def _directed_sources(reexp: str, back: str, consumer: str, where: str) -> Dict[str, str]:
    """pkg._impl defines X (and a subclass Z of it), pkg.api re-exports X (single re-exporter), pkg._impl imports pkg.api back
    -- at the bottom or between its two classes --, pkg.user derives from X through the public name only"""
    exported = 'PubX' if reexp == 'name-as' else 'X'
    impl = 'class X:\n    """The class."""\n    def meth(self): pass\n'
    if where == 'middle':
        impl += back + '\n'
    impl += 'class Z(X):\n    """Subclass in the defining module."""\n'
    if where == 'bottom':
        impl += back + '\n'
    api = {'name': 'from pkg._impl import X\n__all__ = ["X"]\n', 'star': 'from pkg._impl import *\n__all__ = ["X"]\n',
           'name-as': 'from ._impl import X as PubX\n__all__ = ["PubX"]\n'}[reexp] + 'class ApiLocal:\n    pass\n'
    user = {'from-api': f'from pkg.api import {exported}\nclass Y({exported}):\n    pass\n',
            'import-api': f'import pkg.api\nclass Y(pkg.api.{exported}):\n    pass\n',
            'from-pkg': f'from pkg import api as A\nclass Y(A.{exported}):\n    pass\nclass Y2(A.ApiLocal):\n    pass\n'}[consumer]
    return {'pkg/__init__.py': '"""Package."""\n', 'pkg/_impl.py': impl, 'pkg/api.py': api, 'pkg/user.py': user, 'pkg/zlast.py': 'from pkg.user import Y\nclass W(Y):\n    pass\n'}


# second family: a star import inside the cycle (a <-> b), and a module outside the cycle that star-imports b as well
_DIRECTED_STAR = list(_it.product(['bottom', 'middle'], ['import pkg.a', 'from pkg import a', 'from . import a'], ['from pkg.b import *', 'from .b import *'], [False, True]))


def _directed_star_sources(where: str, back: str, tstyle: str, with_all: bool) -> Dict[str, str]:
    b = 'class Base:\n    """The base."""\n    def meth(self):\n        """doc of Base.meth"""\n'
    if where == 'middle':
        b += back + '\n'
    b += 'class Late(Base):\n    """Defined after the back import."""\n'
    if where == 'bottom':
        b += back + '\n'
    if with_all:
        b += '__all__ = ["Base", "Late"]\n'
    a = 'from pkg.b import *\nclass InA(Base):\n    def meth(self): pass\n'
    t = f'{tstyle}\nclass T(Base):\n    def meth(self): pass\nclass T2(Late):\n    pass\n'
    return {'pkg/__init__.py': '"""Package."""\n', 'pkg/a.py': a, 'pkg/b.py': b, 'pkg/t.py': t}


# third family (no cycle at all): sibling modules reached through their package -- by a star import of the package, or by several dotted
# imports under one top-level name -- and used when the class statement is visited; the siblings are analysed before or after the user
_DIRECTED_SIB = list(_it.product(['from . import base\nfrom . import config\n', 'import pkg.base\nimport pkg.config\n', ''],
                                 ['star', 'dotted-config-first', 'dotted-one-statement', 'dotted-base-first', 'from-pkg']))
# (a star import of a package whose __init__ imports nothing binds no submodule at run time: not a program)
_DIRECTED_SIB = [p_ for p_ in _DIRECTED_SIB if not (p_[0] == '' and p_[1] == 'star')]
# (... but one whose __init__ imports them where the analysis does not look -- in a function it calls -- does, and the analysis never
# processes the siblings on behalf of the package)
_DIRECTED_SIB.append(('def _load():\n    from . import base, config\n_load()\n', 'star-plain'))


def _directed_sibling_sources(init: str, style: str) -> Dict[str, str]:
    pre, ref = {'star': ('from pkg import *\n', 'base'), 'dotted-config-first': ('import pkg.config\nimport pkg.base\n', 'pkg.base'),
                'dotted-one-statement': ('import pkg.config, pkg.base\n', 'pkg.base'), 'dotted-base-first': ('import pkg.base\nimport pkg.config\n', 'pkg.base'),
                'from-pkg': ('from pkg import config, base\n', 'base'), 'star-plain': ('from pkg import *\n', 'base')}[style]
    # (uses that are settled when the statement is visited: bases, an alias of a class, an alias of an alias of a built-in exception used as a
    # base, a method wrapped in a class attribute, an alias that another module re-exports)
    user = (f'{pre}def traced(f):\n    return f\nclass Impl({ref}.Base):\n    def run(self): pass\n    go = traced({ref}.Base.run)\nclass Gone({ref}.Lost):\n    pass\n'
            f'class Gone3({ref}.Alias):\n    pass\nLEVEL = {ref.replace("base", "config")}.DEBUG\nPublicBase = {ref}.Base\nPublicLost = {ref}.Alias\n')
    if style == 'star-plain':
        # (no use of an alias defined in the sibling: what such an alias expands to when the statement is visited depends on whether the
        # sibling was analysed by then, with or without any star import)
        user = f'{pre}class Impl({ref}.Base):\n    def run(self): pass\nclass Gone({ref}.Lost):\n    pass\n'
    return {'pkg/__init__.py': "'Package.'\n" + init, 'pkg/base.py': "class Base:\n    def run(self):\n        'doc of Base.run'\nclass Lost(Exception):\n    pass\nAlias = ConnectionError\n",
            'pkg/config.py': 'DEBUG = False\n', 'pkg/impl.py': user, 'pkg/api.py': 'from pkg.impl import PublicBase, PublicLost\n__all__ = ["PublicBase", "PublicLost"]\n', 'pkg/another.py': user.replace('Impl', 'Impl2').replace('Gone', 'Gone2'),
            'pkg/zlast.py': 'from pkg.impl import Impl\nclass Z(Impl):\n    pass\n'}


# fourth family: a long acyclic chain of modules, each star-importing (or re-exporting from) the next: following the imports nests as
# deep as the chain is long, whatever module the analysis starts with
_DIRECTED_CHAIN = [(60, 'star'), (75, 'star-all'), (60, 'from')]


def _directed_chain_sources(n: int, style: str) -> Dict[str, str]:
    out = {'pkg/__init__.py': "'Package.'\n"}
    for i in range(n):
        if i == n - 1:
            src = f'class C{i}(Exception):\n    pass\n'
        elif style == 'from':
            src = f'from pkg.m{i + 1:03d} import C{i + 1}\nclass C{i}(C{i + 1}):\n    pass\n'
        else:
            src = f'from pkg.m{i + 1:03d} import *\nclass C{i}(C{i + 1}):\n    pass\n'
            if style == 'star-all':
                src += '__all__ = [' + ', '.join(f'"C{j}"' for j in range(i, n)) + ']\n'
        out[f'pkg/m{i:03d}.py'] = src
    return out


# fifth family: two roots (a package and a module using it) given in either order
_DIRECTED_2ROOTS = {
    # the usual package <-> sub-module cycle: __init__ gathers the public names, the derived class first
    'package-gathers-derived-first': ({'shapes/__init__.py': "'Shapes.'\nfrom shapes.circle import Circle\nfrom shapes.base import Shape\n",
                                       'shapes/base.py': "class Shape:\n    'A shape.'\n    def area(self):\n        'The area.'\n",
                                       'shapes/circle.py': "from shapes import Shape\nclass Circle(Shape):\n    'A circle.'\n",
                                       'app.py': "from shapes.circle import Circle\nclass Wheel(Circle):\n    'A wheel.'\n"}, ['shapes', 'app.py']),
    # an object re-exported under the name of the sub-module it comes from, a consumer reaching the rest of that sub-module
    'reexport-named-like-its-module': ({'pkg/__init__.py': "from pkg.bar import bar\n__all__ = ['bar']\n", 'pkg/bar.py': "class BaseBar:\n    pass\nclass bar(BaseBar):\n    pass\n",
                                        'cli.py': "import pkg.bar\nfrom pkg.bar import BaseBar\nclass FancyBar(pkg.bar.BaseBar):\n    pass\nclass F2(BaseBar):\n    pass\n"}, ['pkg', 'cli.py']),
}


def worker_init() -> None:
    from vf.mon import msgs
    msgs.install()
    from vf.mon import sched
    sched.install_cycle_monitors()


_BASE = ['']


def _site(o: Any) -> str:
    # identity of a definition that survives moves and renames: where it was written
    import os
    sp = str(o.source_path) if o.source_path is not None else o.module.fullName()
    if _BASE[0] and sp.startswith(_BASE[0]):
        sp = os.path.relpath(sp, _BASE[0])
    return f'{sp}:{o.linenumber}'


def marks(system: Any) -> Dict[str, List[str]]:
    """mechanism witnesses for unresolved bases: {mechanism: [class sites]}"""
    from pydoctor import model
    out: Dict[str, List[str]] = {'movedscope': [], 'starcycle': [], 'earlybinding': []}
    star = system.__dict__.get('_vf_star_in_progress', [])
    # names that a module imports and then defines itself (a fallback replaced by the real class): while that module is still being
    # processed the name means what was imported
    shadowed = {}
    for m_ in system.allobjects.values():
        if isinstance(m_, model.Module):
            for nm_, tgt_ in getattr(m_, '_localNameToFullName_map', {}).items():
                if isinstance(m_.contents.get(nm_), model.Class):
                    shadowed.setdefault(tgt_, []).append(f'{m_.fullName()}.{nm_}')
    bypath = {}
    for o in system.allobjects.values():
        if isinstance(o, model.Module) and o.source_path is not None:
            bypath.setdefault(str(o.source_path), o)
    for o in system.allobjects.values():
        if not isinstance(o, model.Class):
            continue
        for i_, ((raw, _node), b) in enumerate(zip(o.rawbases, o.baseobjects)):
            if b is not None:
                continue
            # (0) the base (or the alias it is written with) was expanded, when the statement was visited, through a module in progress in
            # which the name was still bound by an import that the module's own class definition replaces later
            if i_ < len(o._initialbases) and o._initialbases[i_] in shadowed and system.__dict__.get('_vf_cycle_hit'):
                out['earlybinding'].append(_site(o))
                continue
            # (1) the class was moved by a re-export and its base only resolves in the scope it was written in
            orig_mod = bypath.get(str(o.source_path))
            if orig_mod is not None and o.parent is not orig_mod and not any(a is orig_mod for a in _anc(o)):
                try:
                    if isinstance(orig_mod.resolveName(raw), model.Class):
                        out['movedscope'].append(_site(o))
                        continue
                except Exception:  # noqa: BLE001
                    pass
            # (2) the base name was to be bound by a star import from a module that was still being processed
            written_in = {o.module.fullName()} | ({orig_mod.fullName()} if orig_mod is not None else set())
            for importer, src in star:
                srcmod = system.allobjects.get(src)
                if importer not in written_in or srcmod is None:
                    continue
                # the written base may be an alias (al = C) of the name the star import should have bound
                cands = set()
                n = raw
                scope = orig_mod if orig_mod is not None else o.module
                for _ in range(4):
                    cands.update((n.split('.')[0], n.split('.')[-1]))
                    nxt = getattr(scope, '_localNameToFullName_map', {}).get(n.split('.')[0])
                    if not nxt or nxt == n:
                        break
                    n = nxt
                hit = False
                for n0 in cands:
                    target = srcmod.contents.get(n0)
                    nm = n0
                    for _ in range(5):
                        # defined there and moved since, or an alias there of something defined there and moved since: follow the names
                        # the module leaves behind
                        if target is not None or nm not in getattr(srcmod, '_localNameToFullName_map', {}):
                            break
                        full_ = srcmod._localNameToFullName_map[nm]
                        target = system.allobjects.get(full_)
                        if target is None and full_.startswith(srcmod.fullName() + '.'):
                            nm = full_[len(srcmod.fullName()) + 1:]
                        else:
                            break
                    if not isinstance(target, model.Class):
                        # the object was moved more than once (re-exported under an alias and under its own name): the name left behind
                        # in the source module leads to a name left behind in the re-exporter; follow them all
                        from vf.mon import repairs
                        full_ = repairs._follow_aliases(system, f'{srcmod.fullName()}.{n0}')
                        target = system.allobjects.get(full_) if full_ else None
                    if isinstance(target, model.Class):
                        hit = True
                if hit:
                    out['starcycle'].append(_site(o))
                    break
    return out


def _anc(o: Any) -> Any:
    p = o.parent
    while p is not None:
        yield p
        p = p.parent


def dump(system: Any, hierarchy_only: bool = False) -> Dict[str, Any]:
    from pydoctor import model
    out: Dict[str, Any] = {}
    if hierarchy_only:
        # with import cycles only the class hierarchy is compared, and a class is identified by its definition site
        # (its documented location may legitimately depend on the order when a cycle is involved)
        for o in system.allobjects.values():
            if isinstance(o, model.Class):
                out[_site(o)] = {'type': 'Class', 'name': o.fullName(),
                                 'bases': [_site(b) if b is not None else None for b in o.baseobjects],
                                 'mro': [_site(c) if not isinstance(c, str) else c for c in o.mro(include_external=True)],
                                 'subclasses': sorted(_site(c) for c in o.subclasses)}
        return out
    for k, o in system.allobjects.items():
        d: Dict[str, Any] = {'type': type(o).__name__.replace('ZopeInterface', '')}
        if isinstance(o, model.Class):
            d['bases'] = [b.fullName() if b is not None else None for b in o.baseobjects]
            d['basenames'] = list(o.bases)
            d['mro'] = [c.fullName() if not isinstance(c, str) else c for c in o.mro(include_external=True)]
            d['subclasses'] = sorted(c.fullName() for c in o.subclasses)
        if not hierarchy_only:
            d['kind'] = o.kind.name if o.kind is not None else None
            d['doc'] = o.docstring
            d['parent'] = o.parent.fullName() if o.parent is not None else None
            if isinstance(o, model.Module):
                d['all'] = list(o.all) if o.all is not None else None
            if isinstance(o, model.Function):
                d['async'] = o.is_async
            if isinstance(o, model.Attribute):
                d['ann'] = None if o.annotation is None else __import__('ast').dump(o.annotation)
        elif not isinstance(o, model.Class):
            continue
        out[k] = d
    return out


def diff(a: Dict[str, Any], b: Dict[str, Any]) -> Optional[Tuple[str, str]]:
    for k in sorted(set(a) | set(b)):
        if k not in a or k not in b:
            return 'object-set', f'{k} is documented under one order ({"first" if k in a else "second"}) and not the other'
        if a[k] != b[k]:
            fields = [f for f in a[k] if a[k].get(f) != b[k].get(f) and f != 'name'] or ['name']
            if fields == ['name']:
                continue
            return 'field:' + fields[0], f'{k}: {fields[0]} = {a[k].get(fields[0])!r} vs {b[k].get(fields[0])!r}'
    return None


def _run_orders(res: core.Res, roots: List[Any], label: str, max_orders: int, hierarchy_only: bool, witness: Dict[str, Any], r: Any,
                attribute: bool = True, spread: bool = False) -> int:
    from vf.mon import sched
    import os
    _BASE[0] = os.path.dirname(str(roots[0])) + os.sep
    orders: List[List[str]] = []

    def first(system: Any) -> None:
        orders.extend(sched.all_orders(system, limit=200))
    # enumerate
    try:
        base_sys = projrun.build_system(roots, order=first)
    except Exception as e:  # noqa: BLE001
        res.v(f'C06:analysis-raises:{type(e).__name__}', f'{label}: analysis raised {e!r}', traceback=traceback.format_exc()[-1500:], **witness)
        return 0
    if spread and orders:
        # far too many orders to enumerate: the first one, its mirror image, and shuffles of it
        head, rest = orders[0][:1], orders[0][1:]
        keep = [orders[0], head + rest[::-1]] + [head + r.sample(rest, len(rest)) for _ in range(max(0, max_orders - 2))]
        exhaustive = False
    elif len(orders) > max_orders:
        keep = [orders[0]] + r.sample(orders[1:], max_orders - 1)
        exhaustive = False
    else:
        keep = orders
        exhaustive = True
    realised = set()
    runs: List[Tuple[List[str], Dict[str, Any], Dict[str, Any]]] = []
    cyclic = hierarchy_only
    for od in keep:
        def inject(system: Any, od: List[str] = od) -> None:
            sched.apply_order(system, od)
            system.__dict__['_vf_sched_log'] = sched.record(system)
        try:
            system = projrun.build_system(roots, order=inject)
        except Exception as e:  # noqa: BLE001
            res.v(f'C06:analysis-raises-under-order:{type(e).__name__}', f'{label}: analysis raised {e!r} under order {od}', order=od, **witness)
            continue
        res.c('schedules_run')
        realised.add(tuple(system.__dict__['_vf_sched_log']))
        if system.__dict__.get('_vf_cycle_hit'):
            cyclic = True
        runs.append((od, dump(system, False), dump(system, True), marks(system)))
    if cyclic:
        res.c('cycle_projects')
    for od, full, hier, mk in runs[1:]:
        d0 = runs[0][2] if cyclic else runs[0][1]
        d1 = hier if cyclic else full
        res.c('objects_compared', len(d1))
        df = diff(d0, d1)
        if df and not attribute:
            # directed projects in which none of the known mechanisms has a trigger (nobody imports from the old location of a
            # moved object after the move, no star import from a module in progress): any disagreement is new
            res.v(f'C06:directed-cycle:{"hierarchy" if cyclic else "dump"}-differs:{df[0]}', f'{label}: orders {runs[0][0]} and {od} disagree: {df[1]}'[:900],
                  order_a=runs[0][0], order_b=od, cyclic=cyclic, **witness)
            continue
        if df:
            # attribution experiment: do the two orders agree once the known stale-import mechanism is repaired?
            from vf.mon import repairs
            try:
                with repairs.stale_import_after_move():
                    pair = []
                    for o2 in (runs[0][0], od):
                        sysr = projrun.build_system(roots, order=lambda system, o2=o2: sched.apply_order(system, o2))
                        pair.append(dump(sysr, cyclic))
                agree = diff(pair[0], pair[1]) is None
            except Exception:  # noqa: BLE001
                agree = False
            if agree:
                res.v('C06:stale-import-after-move', f'{label}: orders {runs[0][0]} and {od} disagree: {df[1]} (they agree once names imported from the old location of a moved object are followed)'[:900],
                      order_a=runs[0][0], order_b=od, cyclic=cyclic, **witness)
                continue
            mk0 = runs[0][3]
            attributed = False
            for mech, what in (('movedscope', 'base-of-moved-class-resolved-in-new-scope'), ('starcycle', 'star-import-from-module-in-progress'),
                               ('earlybinding', 'name-imported-then-defined-seen-through-module-in-progress')):
                if set(mk0[mech]) != set(mk[mech]):
                    res.v(f'C06:{what}', f'{label}: orders {runs[0][0]} and {od} disagree: {df[1]} (classes with this mechanism\'s witness: {sorted(set(mk0[mech]) ^ set(mk[mech]))[:3]})'[:900],
                          order_a=runs[0][0], order_b=od, cyclic=cyclic, **witness)
                    attributed = True
                    break
            if attributed:
                continue
            res.v(f'C06:{"hierarchy" if cyclic else "dump"}-differs:{df[0]}', f'{label}: orders {runs[0][0]} and {od} disagree: {df[1]}'[:900], order_a=runs[0][0], order_b=od, cyclic=cyclic, **witness)
    res.c('distinct_realised_schedules', len(realised))
    if len(realised) >= 2:
        res.c('projects_with_2_schedules')
        res.distinct(label)
    if exhaustive:
        res.c('projects_all_orders')
    return len(realised)


RE_MODTOK = re.compile(r'\b(_?)([mk])(\d\d)\b')


def _canon(obj: Any, mapping: Dict[str, str]) -> Any:
    if isinstance(obj, str):
        return RE_MODTOK.sub(lambda m: m.group(1) + mapping.get(m.group(2) + m.group(3), m.group(0)), obj)
    if isinstance(obj, list):
        return [_canon(x, mapping) for x in obj]
    if isinstance(obj, dict):
        d = {_canon(k, mapping): _canon(v, mapping) for k, v in obj.items()}
        if isinstance(d.get('subclasses'), list):
            d['subclasses'] = sorted(d['subclasses'])
        return d
    return obj


def run_case(case: Dict[str, Any]) -> core.Res:
    res = core.Res()
    if case['part'] == 'P':
        from pathlib import Path
        r = core.rng('C06', 'P', case['path'])
        _run_orders(res, [Path(case['path'])], Path(case['path']).name, case['orders'], False, {'path': case['path']}, r)
        res.c('evaluations')
        res.sample({'package': case['path']})
        return res
    if case['part'] == 'D':
        import shutil
        import tempfile
        from pathlib import Path
        if 'star' in case:
            params = _DIRECTED_STAR[case['star']]
            srcs = _directed_star_sources(*params)
        elif 'sib' in case:
            params = _DIRECTED_SIB[case['sib']]
            srcs = _directed_sibling_sources(*params)
        elif 'chain' in case:
            params = _DIRECTED_CHAIN[case['chain']]
            srcs = _directed_chain_sources(*params)
        elif 'two' in case:
            params = (case['two'],)
            srcs = _DIRECTED_2ROOTS[case['two']][0]
        else:
            params = _DIRECTED_PARAMS[case['idx']]
            srcs = _directed_sources(*params)
        base = Path(tempfile.mkdtemp(prefix='vf06d-'))
        try:
            for rel, text in srcs.items():
                pth = base / rel
                pth.parent.mkdir(parents=True, exist_ok=True)
                pth.write_text(text)
            label = 'directed-cycle:' + '/'.join(str(x) for x in params)
            if 'two' in case:
                n = _run_orders(res, [base / x for x in _DIRECTED_2ROOTS[case['two']][1]], label, 24, True, {'project': label, 'sources': srcs}, core.rng('C06', 'D2', case['two']), attribute=False)
                res.c('directed_two_root_projects')
                res.c('evaluations')
                res.sample({'directed': list(params)})
                return res
            n = _run_orders(res, [base / 'pkg'], label, 24 if 'chain' not in case else 5, 'sib' not in case and 'chain' not in case, {'project': label, 'sources': srcs if 'chain' not in case else {'chain': list(params)}},
                            core.rng('C06', 'D', case.get('idx', case.get('star', case.get('sib', case.get('chain'))))), attribute=False, spread='chain' in case)
            res.c('directed_chain_projects' if 'chain' in case else ('directed_sibling_projects' if 'sib' in case else 'directed_cycle_projects'))
            res.c('evaluations')
        finally:
            shutil.rmtree(base, ignore_errors=True)
        res.sample({'directed': list(params)})
        return res
    if case['part'] == 'G':
        feat = project.Features.order_cycles() if case['cycles'] else project.Features.order()
        specs = [project.generate(core.rng('C06', case['seed'], case['k'] + j), feat) for j in range(case['n'])]
        with projrun.TmpProjects(specs, seed=('C06', case['seed'], case['k'])) as tp:
            for j, spec in enumerate(specs):
                label = f"C06:{case['seed']}:{case['k'] + j}"
                r = core.rng('C06', 'orders', label)
                has_cycle = bool(spec.notes.get('has_cycle'))
                _run_orders(res, tp.roots[j], label, case['max_orders'], has_cycle,
                            {'project': label, 'sources': project.sources(spec, seed=(('C06', case['seed'], case['k']), j))}, r)
                res.c('evaluations')
        res.sample({'project': f"C06:{case['seed']}:{case['k']}", 'modules': [specs[0].modname(m.mid) for m in specs[0].mods]})
        return res
    # renamed twins: no injection at all, the file system's alphabetical order is the schedule
    for j in range(case['n']):
        label = f"C06T:{case['seed']}:{case['k'] + j}"
        twins = []
        for salt in (0, 1, 2, 5):
            feat = project.Features.order()
            feat.name_salt = salt
            twins.append(project.generate(core.rng('C06T', case['seed'], case['k'] + j), feat))
        # same structure?
        if len({len(t.mods) for t in twins}) != 1:
            res.c('generator_discards')
            continue
        dumps = []
        with projrun.TmpProjects(twins, seed=('C06T', case['seed'], case['k'], j), same_print_seed=True) as tp:
            for t, roots in zip(twins, tp.roots):
                from vf.mon import sched
                holder: Dict[str, Any] = {}

                def rec(system: Any, holder: Dict[str, Any] = holder) -> None:
                    holder['log'] = sched.record(system)
                import os
                _BASE[0] = os.path.dirname(str(roots[0])) + os.sep
                try:
                    system = projrun.build_system(roots, order=rec)
                except Exception as e:  # noqa: BLE001
                    res.v(f'C06:analysis-raises:{type(e).__name__}', f'{label}: analysis raised {e!r}')
                    dumps.append(None)
                    continue
                mapping = {m.name.lstrip('_'): f'{m.name.lstrip("_")[0]}#{m.mid}' for m in t.mods if RE_MODTOK.fullmatch(m.name)}
                cyc = bool(system.__dict__.get('_vf_cycle_hit'))
                from vf.mon import repairs
                with repairs.stale_import_after_move():
                    sysr = projrun.build_system(roots)
                    rep = (_canon(dump(sysr), mapping), _canon(dump(sysr, True), mapping))
                dumps.append((_canon(dump(system), mapping), [_canon(x, mapping) for x in holder['log']], _canon(dump(system, True), mapping), cyc, rep))
                res.c('schedules_run')
        ok = [d for d in dumps if d is not None]
        if len(ok) < 2:
            continue
        res.c('renamed_twins')
        res.c('evaluations')
        scheds = {tuple(d[1]) for d in ok}
        res.c('distinct_realised_schedules', len(scheds))
        if len(scheds) >= 2:
            res.c('projects_with_2_schedules')
            res.distinct(label)
        cyclic = any(d[3] for d in ok)
        if cyclic:
            res.c('cycle_projects')
        for d in ok[1:]:
            res.c('objects_compared', len(d[0]))
            df = diff(ok[0][2], d[2]) if cyclic else diff(ok[0][0], d[0])
            if df:
                agree = (diff(ok[0][4][1], d[4][1]) if cyclic else diff(ok[0][4][0], d[4][0])) is None
                if agree:
                    res.v('C06:stale-import-after-move', f'{label}: renamed twins differ: {df[1]} (they agree once names imported from the old location of a moved object are followed)'[:900], project=label)
                    break
                res.v(f'C06:renamed-twin-differs:{df[0]}', f'{label}: the same project under module names with a different alphabetical order differs: {df[1]}'[:900],
                      project=label, schedule_a=ok[0][1], schedule_b=d[1], sources_a=project.sources(twins[0], seed=(('C06T', case['seed'], case['k'], j), 0)))
                break
    res.sample({'renamed_twin': label})
    return res
