"""C08 -- any docstring in any format is rendered; markup errors degrade to plain text
(total-function monitor + conservation "gave up => reported and full text shown" + neighbour differential)."""
from __future__ import annotations

import html as _html
import traceback
from html.parser import HTMLParser
import html as html_mod
import re
from typing import Any, Dict, List, Optional, Tuple

from vf import core
from vf.gen import docfuzz

ID = 'C08'
LEVEL = 'exploration'
RULE = ('docstrings from a markup-fragment fuzzer (epytext/reST/google/numpy fragments, broken nesting and indentation, '
        'unknown directives/roles/fields, tables, footnotes, raw/include pointing nowhere), mutated real docstrings, '
        'arbitrary Unicode (controls, surrogates, bidi) and deep/long repetitions x {epytext, restructuredtext, google, numpy, '
        'plaintext} x process-types {off, on}; each string is attached to a module, class, function, method, property, class '
        'variable, constant and instance variable of one generated module next to a control function. For every object '
        'format_docstring/format_summary/format_toc and flatten must return; when the plaintext fallback was taken (observed '
        'by wrapping the fallback parser and the stan fallbacks) the object must be in System.parse_errors, a counted message '
        'emitted, and the body must be exactly the docstring in <p class="pre">; recoverable reST problems must be reported; '
        'the control function must render as in a clean system. Distinct: (string, docformat, process-types); non-trivial: '
        'the string is not plain words.')
ASSUME = ['BROKEN placeholders are legal only for summary, toc and field bodies', 'CPU budget overruns are confirmed alone with a 4x budget before being reported']
DECIDING = {'inherited_renderings': 500, 'inherited_fallbacks_observed': 100, 'renderings': 20000, 'fallbacks_observed': 300, 'recoverable_errors_observed': 300, 'control_comparisons': 2000, 'docformats': 5, 'owner_comparisons': 40}
CPU_S = 900
HANG_IS_VIOLATION = True
FORMATS = ['epytext', 'restructuredtext', 'google', 'numpy', 'plaintext']
PER = 12

TEMPLATE = '''{mod}
class K:
    {cls}
    def meth(self, a, b=1):
        {meth}
    @property
    def prop(self):
        {prop}
        return 1
    cvar = 1
    {cvar}
    def __init__(self):
        self.ivar = 2
        {ivar}
class Sub(K):
    def meth(self, a, b=1):
        return 2
def func(a, *args, **kw):
    {func}
CONST = 3
{const}
def ctl2(a):
    {ctl2}
def ctl(a):
    """Control docstring about L{{func}} and C{{a}}.

    Section
    =======

    Text of a section whose title other docstrings use as well.

    @param a: the a
    @return: nothing
    """
'''
KINDS = ['mod', 'cls', 'meth', 'prop', 'cvar', 'ivar', 'func', 'const']
TARGETS = {'mod': 'fz', 'cls': 'fz.K', 'meth': 'fz.K.meth', 'prop': 'fz.K.prop', 'cvar': 'fz.K.cvar', 'ivar': 'fz.K.ivar', 'func': 'fz.func', 'const': 'fz.CONST'}


def cases(tier: str, seed: int) -> List[Dict[str, Any]]:
    n = 4000 if tier == 'quick' else 150000
    # a batch takes a few CPU seconds; one that takes minutes is re-run alone with four times the budget before it counts as a hang
    return [{'seed': seed, 'k': k, 'n': PER, 'cpu_s': 150} for k in range(0, n, PER)] + [{'part': 'O', 'cpu_s': 150}]


# ---- M-DOC --------------------------------------------------------------------------------------------
_state: Dict[str, Any] = {'in_parse': None, 'events': []}
_ctl_cache: Dict[Any, str] = {}


def worker_init() -> None:
    from vf.mon import msgs
    msgs.install()
    from pydoctor import epydoc2stan
    import pydoctor.epydoc.markup.plaintext as plaintext
    orig_parse = epydoc2stan.parse_docstring
    orig_plain = plaintext.parse_docstring

    def parse_docstring(obj: Any, doc: str, source: Any, markup: Optional[str] = None, section: str = 'docstring') -> Any:
        fmt = markup or epydoc2stan._get_docformat(source)
        prev = _state['in_parse']
        _state['in_parse'] = (fmt, source.fullName(), section)
        try:
            return orig_parse(obj, doc, source, markup=markup, section=section)
        finally:
            _state['in_parse'] = prev

    def plain_parse(docstring: str, errors: List[Any]) -> Any:
        ip = _state['in_parse']
        if ip is not None and ip[0] != 'plaintext':
            _state['events'].append(('parser-gave-up', ip[1], ip[2], [e.descr() for e in errors][:3]))
        return orig_plain(docstring, errors)
    epydoc2stan.parse_docstring = parse_docstring  # type: ignore[assignment]
    plaintext.parse_docstring = plain_parse  # type: ignore[assignment]
    orig_report = epydoc2stan.reportErrors

    def reportErrors(obj: Any, errs: Any, section: str = 'docstring') -> None:
        try:
            fatal = [e.descr() for e in errs if e.is_fatal()]
        except Exception:  # noqa: BLE001
            fatal = []
        if fatal:
            _state['events'].append(('fatal-error', obj.fullName(), section, fatal[:3]))
        return orig_report(obj, errs, section=section)
    epydoc2stan.reportErrors = reportErrors  # type: ignore[assignment]
    orig_fb = epydoc2stan.format_docstring_fallback
    orig_sfb = epydoc2stan.format_summary_fallback

    def fb(errs: Any, parsed_doc: Any, ctx: Any) -> Any:
        _state['events'].append(('stan-gave-up', ctx.fullName(), 'docstring', [e.descr() for e in errs][:3]))
        return orig_fb(errs, parsed_doc, ctx)

    def sfb(errs: Any, parsed_doc: Any, ctx: Any) -> Any:
        _state['events'].append(('summary-gave-up', ctx.fullName(), 'summary', [e.descr() for e in errs][:3]))
        return orig_sfb(errs, parsed_doc, ctx)
    epydoc2stan.format_docstring_fallback = fb  # type: ignore[assignment]
    epydoc2stan.format_summary_fallback = sfb  # type: ignore[assignment]


class _Pre(HTMLParser):
    def __init__(self) -> None:
        super().__init__(convert_charrefs=True)
        self.depth = 0
        self.in_pre = 0
        self.pre: List[str] = []
        self.cur: List[str] = []

    def handle_starttag(self, tag: str, attrs: List[Tuple[str, Optional[str]]]) -> None:
        if self.in_pre:
            self.in_pre += 1
        elif tag == 'p' and ('class', 'pre') in attrs:
            self.in_pre = 1
            self.cur = []

    def handle_endtag(self, tag: str) -> None:
        if self.in_pre:
            self.in_pre -= 1
            if self.in_pre == 0:
                self.pre.append(''.join(self.cur))

    def handle_data(self, data: str) -> None:
        if self.in_pre:
            self.cur.append(data)


def _lit(s: str, indent: str) -> str:
    return repr(s)


def _build(s: str, fmt: str, ptypes: bool, which: Optional[List[str]] = None) -> Any:
    from pydoctor import model
    from pydoctor.options import Options
    opts = Options.from_args([f'--docformat={fmt}'] + (['--process-types'] if ptypes else []))
    opts.verbosity = -10
    system = model.System(opts)
    fill = {k: (repr(s) if (which is None or k in which) else "'plain'") for k in KINDS}
    # a second control: one of its own field bodies fails to render (a form feed), so it legitimately shows the broken-description
    # placeholder -- which must not carry anything of its neighbours
    fill['ctl2'] = repr({'epytext': 'Second control.\n\n@param a: x\x0c y\n', 'restructuredtext': 'Second control.\n\n:param a: x\x0c y\n',
                         'google': 'Second control.\n\nArgs:\n    a: x\x0c y\n', 'numpy': 'Second control.\n\nParameters\n----------\na\n    x\x0c y\n',
                         'plaintext': 'Second control.'}[fmt])
    src = TEMPLATE.format(**fill)
    b = system.systemBuilder(system)
    b.addModuleString(src, 'fz')
    b.buildModules()
    return system


_ORDER = [0]


def _render(obj: Any) -> Tuple[Dict[str, str], Optional[Tuple[str, BaseException]]]:
    from pydoctor import epydoc2stan
    from pydoctor.stanutils import flatten
    out: Dict[str, str] = {}
    # the three renderings are asked for in varying order (pages ask for summaries of children before their docstrings, sidebars
    # for tables of contents first): what is shown must not depend on which came first
    fns = [('docstring', epydoc2stan.format_docstring), ('summary', epydoc2stan.format_summary), ('toc', epydoc2stan.format_toc)]
    k = _ORDER[0] % 3
    fns = fns[k:] + fns[:k]
    for name, fn in fns:
        try:
            stan = fn(obj)
            out[name] = flatten(stan) if stan is not None else ''
        except core.CpuTimeout:
            raise
        except Exception as e:  # noqa: BLE001
            return out, (name, e)
    return out, None


def _judge(res: core.Res, s: str, fmt: str, ptypes: bool) -> None:
    from vf.mon import msgs
    del _state['events'][:]
    import zlib as _z
    _ORDER[0] = _z.crc32(s.encode('utf-8', 'surrogatepass'))
    w = {'docstring': s, 'docformat': fmt, 'process_types': ptypes}
    try:
        system = _build(s, fmt, ptypes)
    except core.CpuTimeout:
        raise
    except Exception as e:  # noqa: BLE001
        tb = traceback.extract_tb(e.__traceback__)
        where = next((f'{t.filename.split("/")[-1]}:{t.name}' for t in reversed(tb) if 'pydoctor' in t.filename), '?')
        res.v(f'C08:build-raises:{type(e).__name__}:{where}', f'analysing a module whose docstrings are {s[:80]!r} ({fmt}) raised {e!r}', traceback=traceback.format_exc()[-1500:], **w)
        return
    import inspect
    clean = inspect.cleandoc(s)
    for kind in KINDS:
        obj = system.allobjects.get(TARGETS[kind])
        if obj is None:
            continue
        n_ev = len(_state['events'])
        outs, err = _render(obj)
        res.c('renderings')
        w2 = dict(w, kind=kind)
        if err is not None:
            name, e = err
            tb = traceback.extract_tb(e.__traceback__)
            where = next((f'{t.filename.split("/")[-1]}:{t.name}' for t in reversed(tb) if 'pydoctor' in t.filename), '?')
            surrogate = any(0xd800 <= ord(c) < 0xe000 for c in s)
            key = 'C08:flatten-lone-surrogate' if (surrogate and isinstance(getattr(e, '__cause__', None) or e, (UnicodeEncodeError,)) or (surrogate and 'surrogates not allowed' in repr(e))) \
                else f'C08:raises:{name}:{type(e).__name__}:{where}'
            res.v(key, f'format_{name} of a {kind} with docstring {s[:80]!r} ({fmt}, process-types={ptypes}) raised {type(e).__name__}: {str(e)[:200]}', **w2)
            continue
        # a docstring that opens with a line of plain words shows at least those words, whatever else happens to it
        first = clean.split('\n')[0].strip() if clean else ''
        second = clean.split('\n')[1] if clean and '\n' in clean else ''
        if fmt != 'plaintext' and re.fullmatch(r'[A-Za-z][A-Za-z ,]{3,}\.?', first) and (obj.docstring or kind == 'prop') and second.strip() == '' and not first.endswith(':'):
            res.c('plain_first_lines_checked')
            visible = re.sub(r'\s+', ' ', html_mod.unescape(re.sub(r'<[^>]*>', ' ', outs.get('docstring', ''))))
            if not all(wd in visible for wd in re.findall(r'[A-Za-z]{4,}', first)):
                res.v('C08:plain-first-line-not-shown', f'{kind} docstring {s[:80]!r} ({fmt}): its first line {first!r} is plain words, the rendered documentation shows {visible[:120]!r}', **w2)
        events = [ev for ev in _state['events'] if ev[1] == obj.fullName()]
        # a *fatal* error means "the parser gives up" for epytext only (docutils flags errors it recovers from as fatal too)
        body_gave_up = [ev for ev in events if (ev[0] in ('parser-gave-up', 'stan-gave-up') or (ev[0] == 'fatal-error' and fmt == 'epytext')) and ev[2] == 'docstring']
        if body_gave_up and obj.docstring:
            res.c('fallbacks_observed')
            if obj.fullName() not in system.parse_errors['docstring']:
                res.v('C08:gave-up-not-reported', f'{kind} docstring {s[:80]!r} ({fmt}): the parser/renderer gave up ({body_gave_up[0][0]}: {body_gave_up[0][3]}) but the object is not in parse_errors', **w2)
            if not any(m[0] == 'docstring' and m[2] < 0 for m in msgs.messages(system)):
                res.v('C08:gave-up-no-message', f'{kind} docstring {s[:80]!r} ({fmt}): gave up but no counted message was emitted', **w2)
            p = _Pre()
            p.feed(outs['docstring'])
            p.close()
            if obj.docstring not in p.pre:
                # control characters are set aside by the HTML layer; compare modulo those
                norm = lambda t: ''.join(c for c in t if c >= ' ' or c in '\n\t')  # noqa: E731
                if norm(obj.docstring) not in [norm(x) for x in p.pre]:
                    # the failure was in the renderer (to_stan error "<ExceptionClass>: ...") of a *field body*: pydoctor shows
                    # "Broken description" for that field and keeps the rest of the docstring
                    import re as _re
                    # (neither the parser nor the renderer of the *body* gave up -- those two are hooked and would have left an event --: what
                    # failed is the renderer of a field body, which is reported through the same channel; the field then shows the placeholder, or
                    # nothing at all when it is a type shown elsewhere or a field that a later one of the same kind replaces)
                    field_only = not any(ev[0] in ('parser-gave-up', 'stan-gave-up') for ev in body_gave_up) and \
                        all(_re.match(r'^\w+(Exception|Error): ', str(d)) for ev in body_gave_up if ev[0] == 'fatal-error' for d in ev[3])
                    res.v('C08:field-body-failure-shows-broken-description' if field_only else 'C08:fallback-text-differs', f'{kind} docstring {s[:80]!r} ({fmt}): gave up, but the page does not show the complete original text as plain text (shown: {[x[:80] for x in p.pre][:2]})', shown=p.pre[:2], **w2)
    # an object showing a docstring that is not its own (an overriding method without docstring): same rule, in a system of its
    # own so that this is the first rendering of that docstring (a second rendering of the same parsed docstring is not comparable)
    import zlib as _zlib
    if _zlib.crc32(s.encode('utf-8', 'surrogatepass')) % 3 == 0:
        del _state['events'][:]
        try:
            sys2 = _build(s, fmt, ptypes, which=['meth'])
        except core.CpuTimeout:
            raise
        except Exception:  # noqa: BLE001 -- reported above
            sys2 = None
        sub_m = sys2.allobjects.get('fz.Sub.meth') if sys2 is not None else None
        base_m = sys2.allobjects.get('fz.K.meth') if sys2 is not None else None
        if sub_m is not None and base_m is not None and base_m.docstring:
            o2, e2 = _render(sub_m)
            res.c('inherited_renderings')
            if e2 is not None:
                if not any(0xd800 <= ord(c) < 0xe000 for c in s):
                    res.v(f'C08:raises:inherited:{e2[0]}:{type(e2[1]).__name__}', f'format_{e2[0]} of a method inheriting the docstring {s[:80]!r} ({fmt}) raised {e2[1]!r}', **w)
            else:
                evs = [ev for ev in _state['events'] if ev[1] in ('fz.K.meth', 'fz.Sub.meth')]
                gave_up = [ev for ev in evs if (ev[0] in ('parser-gave-up', 'stan-gave-up') or (ev[0] == 'fatal-error' and fmt == 'epytext')) and ev[2] == 'docstring']
                if gave_up:
                    res.c('inherited_fallbacks_observed')
                    p2 = _Pre()
                    p2.feed(o2['docstring'])
                    p2.close()
                    norm = lambda t: ''.join(c for c in t if c >= ' ' or c in '\n\t')  # noqa: E731
                    import re as _re
                    field_only = 'Broken description' in o2['docstring'] and not any(ev[0] == 'parser-gave-up' for ev in gave_up) and \
                        all(_re.match(r'^\w+(Exception|Error): ', str(d)) for ev in gave_up if ev[0] == 'fatal-error' for d in ev[3]) and \
                        ('fieldTable' in o2['docstring'])
                    if norm(base_m.docstring) not in [norm(x) for x in p2.pre] and not field_only:
                        res.v('C08:inherited-docstring-fallback-differs', f'{fmt} docstring {s[:80]!r}: the parser/renderer gave up, the overriding method that inherits the docstring '
                              f'does not show the complete text as plain text (shown: {[x[:60] for x in p2.pre][:2]}, broken marker: {"Broken description" in o2["docstring"]})', inheritor=o2['docstring'][:1500], **w)
                    if 'fz.K.meth' not in sys2.parse_errors['docstring']:
                        res.v('C08:inherited-gave-up-reported-against-other-object', f'{fmt} docstring {s[:80]!r}: the failure is not recorded for the object that owns the docstring (parse_errors: {sorted(sys2.parse_errors["docstring"])})', **w)
    # recoverable problems must be reported (reference: the format's parser called directly)
    if fmt in ('restructuredtext', 'google', 'numpy'):
        from pydoctor.epydoc.markup import get_parser_by_name
        errs: List[Any] = []
        try:
            # the text pydoctor holds for the object (lone surrogates are shown escaped since fix a0b48f2), not the raw literal
            get_parser_by_name(fmt, system.allobjects['fz.func'])(system.allobjects['fz.func'].docstring or clean, errs)
        except Exception:  # noqa: BLE001
            errs = errs or ['raised']
        if errs:
            res.c('recoverable_errors_observed')
            if 'fz.func' not in system.parse_errors['docstring'] and system.allobjects['fz.func'].docstring:
                res.v('C08:recoverable-problem-not-reported', f'{fmt} docstring {s[:80]!r}: the parser reports {[getattr(e, "descr", lambda: e)() for e in errs][:2]} but fz.func is not in parse_errors', **w)
    # the same clause against an independent reader: plain docutils parsing the same text. Only structural messages are
    # taken (they do not depend on the roles and directives pydoctor adds or removes)
    if fmt == 'restructuredtext' and system.allobjects['fz.func'].docstring:
        # (pydoctor accepts the Sphinx roles for code references by removing the role marker - ":py:class:`X`" is read as "`X`" -, which
        # moves the boundaries of inline markup: the independent reader is given the text with the markers removed in the same way)
        structural = _plain_docutils_problems(re.sub(r'(:py)?:(mod|func|data|const|class|meth|attr|exc|obj):', '', system.allobjects['fz.func'].docstring))
        if structural:
            res.c('independent_reader_problems_observed')
            if 'fz.func' not in system.parse_errors['docstring']:
                res.v('C08:recoverable-problem-not-reported', f'{fmt} docstring {s[:80]!r}: plain docutils reports {structural[:2]} but fz.func is not in parse_errors', independent_reader=structural[:5], **w)
    # neighbour differential (the controls are always rendered in the same order)
    _ORDER[0] = 0
    for cname in ('fz.ctl2',):
        c2 = system.allobjects.get(cname)
        if c2 is not None:
            outs2, err2 = _render(c2)
            key2 = (fmt, ptypes, cname)
            if key2 not in _ctl_cache:
                cs2 = _build('plain words', fmt, ptypes)
                c_outs2, c_err2 = _render(cs2.allobjects[cname])
                _ctl_cache[key2] = repr((c_outs2, None if c_err2 is None else c_err2[0]))
            res.c('control_comparisons')
            if repr((outs2, None if err2 is None else err2[0])) != _ctl_cache[key2]:
                res.v('C08:neighbour-affected', f'the second control function (one broken field body of its own) renders differently next to docstrings {s[:80]!r} ({fmt})', got=outs2, **w)
    ctl = system.allobjects.get('fz.ctl')
    if ctl is not None:
        outs, err = _render(ctl)
        key = (fmt, ptypes)
        if key not in _ctl_cache:
            cs = _build('plain words', fmt, ptypes)
            c_outs, c_err = _render(cs.allobjects['fz.ctl'])
            _ctl_cache[key] = repr((c_outs, None if c_err is None else c_err[0]))
        res.c('control_comparisons')
        if repr((outs, None if err is None else err[0])) != _ctl_cache[key]:
            res.v('C08:neighbour-affected', f'the control function renders differently next to docstrings {s[:80]!r} ({fmt})', got=outs, **w)


STRUCTURAL = ('Title underline too short', 'Duplicate implicit target name', 'Literal block expected; none found', 'Unexpected indentation',
              'ends without a blank line', 'start-string without end-string', 'Possible title underline, too short for the title',
              'Possible incomplete section title', 'Title overline too short', 'Missing matching underline', 'Title overline & underline mismatch',
              'Inconsistent literal block quoting', 'Malformed table', 'Unexpected section title', 'Title level inconsistent')


def _plain_docutils_problems(text: str) -> List[str]:
    import docutils.frontend
    import docutils.parsers.rst
    import docutils.utils
    found: List[str] = []
    try:
        settings = docutils.frontend.get_default_settings(docutils.parsers.rst.Parser)
        settings.report_level = 5
        settings.halt_level = 5
        settings.warning_stream = False
        settings.file_insertion_enabled = False
        settings.raw_enabled = False
        doc = docutils.utils.new_document('<docstring>', settings)
        doc.reporter.attach_observer(lambda msg: found.append(msg.astext()))
        docutils.parsers.rst.Parser().parse(text, doc)
    except core.CpuTimeout:
        raise
    except BaseException:  # noqa: BLE001 -- the reference reader gave up: nothing to compare
        return []
    return [m for m in found if any(k in m for k in STRUCTURAL)]


# ---- a failing field body must not harm the docstring it is part of --------------------------------------------------------------
# An attribute documented by a field of its owner's docstring is rendered *before* the owner (any page that lists the attribute's
# summary does that): whatever happens to the field body, the owner must then render as it does in a system where the attribute
# was never asked for.
OWNER_DOCS = {
    'epytext': 'Owner with I{{markup}} and C{{code}}.\n\nSecond paragraph.\n\n@ivar fv: {body}\n@ivar ok: fine\n@note: a note\n',
    'restructuredtext': 'Owner with *markup* and ``code``.\n\nSecond paragraph.\n\n:ivar fv: {body}\n:ivar ok: fine\n:note: a note\n',
    'google': 'Owner with *markup* and ``code``.\n\nSecond paragraph.\n\nAttributes:\n    fv: {body}\n    ok: fine\n\nNote:\n    a note\n',
    'numpy': 'Owner with *markup* and ``code``.\n\nSecond paragraph.\n\nAttributes\n----------\nfv\n    {body}\nok\n    fine\n\nNotes\n-----\na note\n',
}
FIELD_BODIES = ['x\xa0y', 'x\x0c y', 'plain words', 'a \ufffe b', 'L{nosuch} `nosuch`', 'x\xa0y\n    more\xa0text']


def _run_owner(res: core.Res) -> None:
    from pydoctor import model
    from pydoctor.options import Options
    for fmt, tmpl in OWNER_DOCS.items():
        for body in FIELD_BODIES:
            for kind in ('class', 'module'):
                doc = tmpl.format(body=body)
                src = f'class Owner:\n    {doc!r}\n    def m(self): pass\n' if kind == 'class' else f'{doc!r}\ndef m(): pass\n'
                outs = []
                for first in (True, False):
                    opts = Options.from_args([f'--docformat={fmt}'])
                    opts.verbosity = -10
                    system = model.System(opts)
                    b = system.systemBuilder(system)
                    b.addModuleString(src, 'ow')
                    b.buildModules()
                    owner = system.allobjects['ow.Owner' if kind == 'class' else 'ow']
                    attr = owner.contents.get('fv')
                    if attr is None:
                        res.c('owner_field_not_extracted')      # the layout of this body does not make a field in this markup: nothing to compare
                        break
                    _ORDER[0] = 0
                    if first:
                        _render(attr)
                    o, err = _render(owner)
                    outs.append(repr((o, None if err is None else (err[0], repr(err[1])))))
                res.c('owner_comparisons')
                if len(outs) == 2 and outs[0] != outs[1]:
                    res.v('C08:owner-affected-by-its-field', f'{fmt} {kind} docstring {doc[:80]!r}: rendered after its attribute fv it shows {outs[0][:300]}, rendered alone {outs[1][:300]}',
                          docformat=fmt, docstring=doc)
    res.c('evaluations')
    res.distinct('owner-fields')


def run_case(case: Dict[str, Any]) -> core.Res:
    res = core.Res()
    if case.get('part') == 'O':
        _run_owner(res)
        res.sample({'part': 'owner docstrings whose field bodies fail'})
        return res
    r = core.rng('C08', case['seed'], case['k'])
    for j in range(case['n']):
        s = docfuzz.fuzz(r)
        fmt = FORMATS[(case['k'] + j) % len(FORMATS)]
        fmts = [fmt] if j % 3 else FORMATS
        for f in fmts:
            ptypes = r.random() < .4
            _judge(res, s, f, ptypes)
            res.c('evaluations')
            res.setadd('docformats', f)
            if any(c in s for c in '{}@:`*|.>_\\\n'):
                res.distinct(f'{hash(s)}|{f}|{ptypes}')
    res.sample({'docstring': s[:200], 'docformat': fmt})
    return res


def finish(agg: Dict[str, Any], tier: str, seed: int) -> None:
    agg['cnt']['docformats'] = len(agg['sets'].get('docformats', ()))
