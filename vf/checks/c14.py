"""C14 -- a displayed signature is the signature that was written (reference: CPython's parser on the displayed text)."""
from __future__ import annotations

import ast
import copy
import html
import re
from typing import Any, Dict, List, Optional, Tuple

from vf import core
from vf.gen import signature as S
from vf.ref import exprnorm as N

ID = 'C14'
LEVEL = 'exploration'
RULE = ('every layout of <=N parameters over the five parameter kinds x legal default placements x annotation in '
        '{none, plain, string} x return in {none, None, type, string} (N=3 quick, N=4 thorough; exhaustive), plus random '
        'signatures of <=12 parameters with generated default/annotation expressions, as functions, methods, async '
        'functions and overload sets. Each module of 200 definitions is analysed by pydoctor; pages.format_signature is '
        'flattened to text, wrapped as "def f<text>: pass" and parsed by CPython. Non-trivial: at least one parameter; '
        'distinct by signature text.')
ASSUME = ['CPython ast.parse is the reference reader of the displayed signature',
          'string annotations are expected unquoted everywhere except inside Literal[...] (as pydoctor documents)',
          'expression mismatches that the C15 localiser attributes to a known C15 mechanism are reported under C14:expr:<mechanism>']
DECIDING = {'signatures_compared': 5000, 'parameters_compared': 10000, 'overloads_compared': 100, 'methods_compared': 200,
            'expressions_compared': 5000}
CPU_S = 900
PER_MODULE = 200


def cases(tier: str, seed: int) -> List[Dict[str, Any]]:
    out: List[Dict[str, Any]] = []
    maxn = 3 if tier == 'quick' else 4
    total = sum(1 for _ in S.exhaustive(maxn))
    for lo in range(0, total, 250):
        out.append({'part': 'X', 'maxn': maxn, 'lo': lo, 'hi': lo + 250})
    nrand = 3000 if tier == 'quick' else 60000
    for k in range(0, nrand, 100):
        out.append({'part': 'R', 'seed': seed, 'k': k, 'n': 100})
    return out


def worker_init() -> None:
    from vf.checks import c15
    c15.worker_init()
    from vf.mon import msgs
    msgs.install()


class _Unstring(ast.NodeTransformer):
    def visit_Subscript(self, n: ast.Subscript) -> Any:
        v = self.visit(n.value)
        if (isinstance(v, ast.Name) and v.id == 'Literal') or (isinstance(v, ast.Attribute) and v.attr == 'Literal'):
            return ast.Subscript(value=v, slice=n.slice, ctx=n.ctx)
        return ast.Subscript(value=v, slice=self.visit(n.slice), ctx=n.ctx)

    def visit_Constant(self, n: ast.Constant) -> Any:
        if isinstance(n.value, str):
            return self.visit(ast.parse(n.value, mode='eval').body)
        return n


def _expected_args(fn: ast.FunctionDef) -> Tuple[ast.arguments, Optional[ast.expr]]:
    a = copy.deepcopy(fn.args)
    for arg in list(a.posonlyargs) + list(a.args) + list(a.kwonlyargs) + [x for x in (a.vararg, a.kwarg) if x]:
        if arg.annotation is not None:
            arg.annotation = _Unstring().visit(arg.annotation)
    ret = copy.deepcopy(fn.returns)
    if ret is not None:
        ret = _Unstring().visit(ret)
        if isinstance(ret, ast.Constant) and ret.value is None:
            ret = None
    return a, ret


TAG = re.compile(r'<[^>]*>')


def _text(flat: str) -> str:
    return html.unescape(TAG.sub('', flat))


def _param_list(a: ast.arguments) -> List[Tuple[str, str, Optional[ast.expr], Optional[ast.expr]]]:
    out = []
    npos = len(a.posonlyargs) + len(a.args)
    dflt: List[Optional[ast.expr]] = [None] * (npos - len(a.defaults)) + list(a.defaults)
    for i, arg in enumerate(a.posonlyargs):
        out.append((str(arg.arg), 'POSITIONAL_ONLY', dflt[i], arg.annotation))
    for i, arg in enumerate(a.args, start=len(a.posonlyargs)):
        out.append((str(arg.arg), 'POSITIONAL_OR_KEYWORD', dflt[i], arg.annotation))
    if a.vararg:
        out.append((str(a.vararg.arg), 'VAR_POSITIONAL', None, a.vararg.annotation))
    for arg, d in zip(a.kwonlyargs, a.kw_defaults):
        out.append((str(arg.arg), 'KEYWORD_ONLY', d, arg.annotation))
    if a.kwarg:
        out.append((str(a.kwarg.arg), 'VAR_KEYWORD', None, a.kwarg.annotation))
    return out


_POOL: List[str] = []


def _pool_sources() -> List[str]:
    if not _POOL:
        from vf.gen import signature
        for x in list(signature.DEFAULTS) + list(signature.ANNOTATIONS):
            try:
                _POOL.append(ast.unparse(ast.parse(x, mode='eval').body))
            except (SyntaxError, ValueError):
                pass
    return _POOL


def _expr_key(src_expr: ast.expr, role: str) -> Tuple[str, str]:
    """Attribute an expression mismatch: known C15 mechanism, or the signature pipeline itself."""
    from vf.checks import c15
    src = ast.unparse(src_expr)
    rt = c15._roundtrips(src, ('inline',))
    if rt is True or rt is None:
        return f'C14:{role}-altered-by-signature-pipeline', f'colorizer alone renders {src!r} faithfully'
    keys = c15._localise(src, ('inline',))
    k, why = keys[0]
    return 'C14:expr:' + k.split(':', 1)[1], why


def _compare(res: core.Res, what: str, src_sig: str, exp_fn: ast.FunctionDef, shown: str, sig_obj: Any, w: Dict[str, Any]) -> None:
    res.c('signatures_compared')
    exp_args, exp_ret = _expected_args(exp_fn)
    exp_params = _param_list(exp_args)
    # (1) Function.signature structure
    if sig_obj is not None:
        got_struct = [(str(p.name), p.kind.name, p.default is not p.empty, p.annotation is not p.empty) for p in sig_obj.parameters.values()]
        exp_struct = [(n, k, d is not None, a is not None) for n, k, d, a in exp_params]
        if got_struct != exp_struct:
            res.v('C14:signature-object-structure', f'{what}: Function.signature has {got_struct}, source {src_sig!r} has {exp_struct}', **w)
    # (2) displayed text
    if shown.strip() == '(...)':
        res.v('C14:broken-signature', f'{what}: signature {src_sig!r} is displayed as "(...)"', **w)
        return
    try:
        got_fn = ast.parse(f'def f{shown}: pass').body[0]
        assert isinstance(got_fn, ast.FunctionDef)
    except (SyntaxError, ValueError, AssertionError):
        # a default/annotation cut to one line is marked with the ellipsis (C15's rule) and cannot be read back
        from vf.checks import c15
        for n, k, d, a in exp_params:
            for e in (d, a):
                if e is not None:
                    doc, _t, _x = c15._render(ast.parse(ast.unparse(e), mode='eval').body, ('inline',))
                    if doc is not None and not doc.is_complete and '...' in shown:
                        # ... but only an expression the generic renderer may have wrapped (a long one, from the random generator) or one
                        # that holds a line break: the hand-written pool and short expressions are never cut in a signature
                        src_e = ast.unparse(e)
                        has_nl = any(isinstance(c_, ast.Constant) and isinstance(c_.value, (str, bytes)) and (b'\n' if isinstance(c_.value, bytes) else '\n') in c_.value
                                     for c_ in ast.walk(e))
                        if not has_nl and (src_e in _pool_sources() or len(src_e) < 50):
                            res.v('C14:expression-cut-in-signature', f'{what}: {"default" if e is d else "annotation"} {src_e[:120]!r} is shown cut ("...") in the signature {shown[:300]!r}', **w)
                            return
                        res.c('signatures_with_truncated_expression')
                        return
        # which expression is to blame?
        for n, k, d, a in exp_params:
            for role, e in (('default', d), ('annotation', a)):
                if e is not None:
                    key, why = _expr_key(e, role)
                    if key.startswith('C14:expr:'):
                        res.v(key, f'{what}: {src_sig!r} is displayed as {shown!r}, which is not a signature; {role} of {n}: {why}', shown=shown, **w)
                        return
        res.v('C14:signature-unparsable', f'{what}: {src_sig!r} is displayed as {shown!r}, which is not a Python signature', shown=shown, **w)
        return
    got_params = _param_list(got_fn.args)
    got_ret = got_fn.returns
    if [(n, k) for n, k, _, _ in got_params] != [(n, k) for n, k, _, _ in exp_params]:
        res.v('C14:parameters-differ', f'{what}: {src_sig!r} displayed as {shown!r}: parameters {[(n, k) for n, k, _, _ in got_params]} vs source {[(n, k) for n, k, _, _ in exp_params]}', shown=shown, **w)
        return
    for (n, k, ed, ea), (_, _, gd, ga) in zip(exp_params, got_params):
        res.c('parameters_compared')
        for role, e, g in (('default', ed, gd), ('annotation', ea, ga)):
            if (e is None) != (g is None):
                res.v(f'C14:{role}-presence', f'{what}: {src_sig!r} displayed as {shown!r}: {role} of {n} {"missing" if g is None else "invented"}', shown=shown, **w)
                continue
            if e is None:
                continue
            res.c('expressions_compared')
            d = N.first_diff(N.norm(copy.deepcopy(e)), N.norm(g))
            if d is not None:
                key, why = _expr_key(e, role)
                res.v(key, f'{what}: {src_sig!r} displayed as {shown!r}: {role} of {n} differs ({why})', shown=shown, **w)
    if (exp_ret is None) != (got_ret is None):
        res.v('C14:return-presence', f'{what}: {src_sig!r} displayed as {shown!r}: return annotation {"missing" if got_ret is None else "shown although None/absent"}', shown=shown, **w)
    elif exp_ret is not None:
        res.c('expressions_compared')
        d = N.first_diff(N.norm(copy.deepcopy(exp_ret)), N.norm(got_ret))
        if d is not None:
            key, why = _expr_key(exp_ret, 'return')
            res.v(key, f'{what}: {src_sig!r} displayed as {shown!r}: return annotation differs ({why})', shown=shown, **w)


def _run_module(res: core.Res, src: str, label: str) -> None:
    from pydoctor import model
    from pydoctor.templatewriter import pages
    from pydoctor.stanutils import flatten
    system = model.System()
    system.options.verbosity = -10
    b = system.systemBuilder(system)
    b.addModuleString(src, 'sigmod')
    try:
        b.buildModules()
    except Exception as e:  # noqa: BLE001
        import traceback
        res.v(f'C14:analysis-raises:{type(e).__name__}', f'analysing a module of valid definitions raised {e!r} ({label})',
              traceback=traceback.format_exc()[-1500:], label=label, source=src[:3000])
        return
    tree = ast.parse(src)
    mod = system.allobjects['sigmod']

    def walk(body: List[ast.stmt], ctx: Any, prefix: str) -> None:
        seen: Dict[str, List[ast.FunctionDef]] = {}
        for st in body:
            if isinstance(st, ast.ClassDef):
                walk(st.body, ctx.contents[st.name], prefix + st.name + '.')
            elif isinstance(st, (ast.FunctionDef, ast.AsyncFunctionDef)):
                seen.setdefault(st.name, []).append(st)  # type: ignore[arg-type]
        for name, defs in seen.items():
            func = ctx.contents.get(name)
            w = {'label': label, 'function': prefix + name}
            if not isinstance(func, model.Function):
                res.v('C14:function-missing', f'{prefix}{name} not documented as a function in {label}', **w)
                continue
            overloads = [d for d in defs if any(ast.unparse(x).endswith('overload') for x in d.decorator_list)]
            primary = [d for d in defs if d not in overloads]
            if overloads:
                if len(func.overloads) != len(overloads):
                    res.v('C14:overload-count', f'{prefix}{name}: {len(overloads)} @overload definitions, {len(func.overloads)} documented', **w)
                for i, (d, ov) in enumerate(zip(overloads, func.overloads)):
                    res.c('overloads_compared')
                    srcsig = _srcsig(d)
                    shown = _text(flatten(pages.format_signature(ov)))
                    _compare(res, f'overload #{i} of {prefix}{name}', srcsig, d, shown, ov.signature, {**w, 'source_signature': srcsig})
                # the displayed definition list shows each overload's own signature, in order
                texts = [_text(flatten(x)) for x in pages.format_overloads(func)]
                texts = [t for t in texts if t.startswith(('def ', 'async def '))]
                if len(texts) != len(overloads):
                    res.v('C14:overload-display-count', f'{prefix}{name}: {len(overloads)} overloads, {len(texts)} displayed definitions', **w)
            if primary:
                d = primary[-1]
                srcsig = _srcsig(d)
                shown = _text(flatten(pages.format_signature(func)))
                if prefix:
                    res.c('methods_compared')
                if len(d.args.args) + len(d.args.posonlyargs) + len(d.args.kwonlyargs) > 0:
                    res.distinct(srcsig)
                if isinstance(d, ast.AsyncFunctionDef) != bool(func.is_async):
                    res.v('C14:async-flag', f'{prefix}{name}: is_async={func.is_async}', **w)
                _compare(res, prefix + name, srcsig, d, shown, func.signature, {**w, 'source_signature': srcsig})
    walk(tree.body, mod, '')
    res.c('evaluations', len([n for n in ast.walk(tree) if isinstance(n, (ast.FunctionDef, ast.AsyncFunctionDef))]))


def _srcsig(d: ast.FunctionDef) -> str:
    s = '(' + ast.unparse(d.args) + ')'
    if d.returns is not None:
        s += ' -> ' + ast.unparse(d.returns)
    return s


def run_case(case: Dict[str, Any]) -> core.Res:
    import itertools
    res = core.Res()
    if case['part'] == 'X':
        sigs = [s for _, s in itertools.islice(S.exhaustive(case['maxn']), case['lo'], case['hi'])]
        for lo in range(0, len(sigs), PER_MODULE):
            src = ''.join(f'def f{i}{s}: pass\n' for i, s in enumerate(sigs[lo:lo + PER_MODULE]))
            _run_module(res, src, f"X:{case['lo'] + lo}")
        res.sample({'signature': sigs[len(sigs) // 2]})
    else:
        r = core.rng(case['seed'], 'C14', case['k'])
        lines = ['from typing import overload', 'import typing']
        # defaults that are equal as values and different as expressions, side by side in one signature
        lines += ['def eqdef_a(count=0, strict=False): pass', 'def eqdef_b(factor=1.0, steps=1, *, enabled=True): pass', "def eqdef_c(a=0, b=0.0, c=False, d=-0, e=0j, f='', g=b''): pass",
                  'def eqdef_d(x=1, y=True, z=1.0, /, w=(1,), v=(True,), u=[1.0]): pass', 'class EqDef:\n    def m(self, a=None, b=False, c=0, *, d=True, e=1): pass']
        n = 0
        sample = ''
        while n < case['n']:
            kind = r.random()
            if kind < .55:
                sample = S.random_sig(r)
                lines.append(f"{'async ' if r.random() < .2 else ''}def f{n}{sample}: pass")
                n += 1
            elif kind < .8:
                lines.append(f'class K{n}:')
                for j in range(r.randint(1, 4)):
                    deco = r.choice(['', '', '    @classmethod\n', '    @staticmethod\n'])
                    first = {'': 'self', '    @classmethod\n': 'cls', '    @staticmethod\n': ''}[deco]
                    sig = S.random_sig(r, complex_exprs=r.random() < .3)
                    if first:
                        inner = sig[1:]
                        sig = '(' + first + (', ' if not inner.startswith(')') else '') + inner
                        if '/' in sig and sig.index('/') > 0 and first + ', /' not in sig and False:
                            pass
                    try:
                        ast.parse(f'def m{sig}: pass')
                    except SyntaxError:
                        sig = '(' + first + ')'
                    lines.append(f"{deco}    {'async ' if r.random() < .2 else ''}def m{n}_{j}{sig}: pass")
                    n += 1
            else:
                k = r.randint(2, 4)
                where = r.random() < .3
                ind = ''
                if where:
                    lines.append(f'class O{n}:')
                    ind = '    '
                for j in range(k):
                    sig = S.random_sig(r, complex_exprs=False)
                    if where:
                        inner = sig[1:]
                        sig = '(self' + (', ' if not inner.startswith(')') else '') + inner
                        try:
                            ast.parse(f'def m{sig}: pass')
                        except SyntaxError:
                            sig = '(self)'
                    deco = r.choice(['@overload', '@typing.overload'])
                    lines.append(f'{ind}{deco}\n{ind}def g{n}{sig}: ...')
                lines.append(f'{ind}def g{n}(*args, **kwargs): pass')
                if not where and r.random() < .5:
                    # a class defined below has a method of the same name, with overloads of its own
                    lines.append(f'class H{n}:')
                    for j in range(r.randint(1, 3)):
                        sig = S.random_sig(r, complex_exprs=False)
                        inner = sig[1:]
                        sig = '(self' + (', ' if not inner.startswith(')') else '') + inner
                        try:
                            ast.parse(f'def m{sig}: pass')
                        except SyntaxError:
                            sig = '(self)'
                        lines.append(f'    @overload\n    def g{n}{sig}: ...')
                    lines.append(f'    def g{n}(self, *a, **k): pass')
                n += k
        for lo in range(0, len(lines), 10 ** 9):
            _run_module(res, '\n'.join(lines) + '\n', f"R:{case['seed']}:{case['k']}")
        res.sample({'signature': sample})
    return res


def finish(agg: Dict[str, Any], tier: str, seed: int) -> None:
    agg['exhaustive'] = True
    agg['extra'] = {'exhaustive_part': f'all layouts of <= {3 if tier == "quick" else 4} parameters'}
