"""C15 -- a displayed value or expression means the same as the source expression
(reference model: CPython's parser on the displayed text)."""
from __future__ import annotations

import ast
import copy
from typing import Any, Dict, List, Optional, Tuple

from vf import core
from vf.gen import expr as G
from vf.ref import exprnorm as N

ID = 'C15'
LEVEL = 'exploration'
RULE = ('every form x hole x inner form (expression trees of depth two), operator chains of depth three over all '
        'unary/binary/boolean/comparison/conditional/lambda/await/starred forms and operand positions, every literal '
        'leaf kind, re.compile calls, random trees of depth<=6; each rendered by colorize_pyval in block mode '
        '(linelen/maxlines unlimited), inline mode, and under linelen in {5,20,80} x maxlines in {1,3,7}; the text '
        '(gettext of the docutils tree, wrap markers removed) is parsed back by ast.parse and compared after '
        'normalisation. Part E: every depth-one form, literal leaf and annotation of the signature pool is placed in each display '
        'position of a real module (constant value at module and class level, variable/class-variable/instance-variable '
        'annotation, type alias, decorator argument, base-class subscript); what format_constant_value / type2stan / '
        'format_decorators / format_class_signature show is read back and compared (string annotations unquoted except inside '
        'any spelling of Literal[...]). An expression is non-trivial if it has at least one operator/container/call node; '
        'distinct by source text (and position in part E).')
ASSUME = ['CPython ast.parse is the reference reader of the displayed text',
          'documented spelling changes only: quotes, number formatting, set([..]), redundant parentheses; regexes compared by parse tree + flags',
          'truncated outputs are judged for their marking only']
DECIDING = {'display_positions_compared': 600, 'rendered_block': 20000, 'rendered_inline': 20000, 'parsed_back': 40000, 'truncated_outputs': 500,
            'wrapped_outputs': 500}
CPU_S = 900

SETTINGS = [(5, 1), (5, 3), (20, 1), (20, 7), (80, 3), (12, 0), (0, 2)]


def cases(tier: str, seed: int) -> List[Dict[str, Any]]:
    out: List[Dict[str, Any]] = []
    for part in ('leaves', 'depth1', 'regexes'):
        out.append({'part': part})
    nd2 = sum(1 for _ in G.depth2())
    for lo in range(0, nd2, 600):
        out.append({'part': 'depth2', 'lo': lo, 'hi': lo + 600})
    nch = sum(1 for _ in G.chains3())
    step = 1 if tier == 'thorough' else 1
    for lo in range(0, nch, 2500):
        out.append({'part': 'chains3', 'lo': lo, 'hi': lo + 2500, 'step': step})
    nrand = 5000 if tier == 'quick' else 120000
    for k in range(0, nrand, 500):
        out.append({'part': 'random', 'seed': seed, 'k': k, 'n': 500})
    exprs, anns = _e_pool()
    for lo in range(0, len(exprs), 40):
        out.append({'part': 'E', 'what': 'expr', 'lo': lo, 'hi': lo + 40})
    for lo in range(0, len(anns), 12):
        out.append({'part': 'E', 'what': 'ann', 'lo': lo, 'hi': lo + 12})
    return out


# ---- part E: the display positions of the real pipeline ----------------------------------------------
# (constant value, variable / class-variable / instance-variable annotation, type alias, decorator argument, base-class
#  expression) -- what the page shows, read back, against the source expression (string annotations unquoted, Literal kept)

def _e_pool() -> Tuple[List[str], List[str]]:
    from vf.gen import signature
    exprs = [src for _, src in G.depth1()] + [src for _, src in G.leaves()][:120] + ['(a + b) * f(x, k=[1, 2])', 'a if b else c', '-(-1)', 'a ** -b', '(a, b)[0]', 'x[1:2, ::3]']
    # values the regular docutils -> HTML -> stan conversion cannot carry (an entity the XML loader does not know, XML noncharacters):
    # they are shown through the fallback renderer
    exprs += ["'a\\xa0b'", "('x\\xa0y', 1 + b)", "['\\uffff', a * 2]", "{'k\\ufffe': f('\\xa0', b)}", "'\xa0 \xa0' + b", "b'\\xa0' + c", "f'{a}\\xa0'"]
    # control characters (the page cannot carry them raw: they are shown as escapes, which must read back as the same characters)
    exprs += ["'ring\\x07'", "'a\\x01b'", "'\\x0f1'", "'\\x0e\\x08' + b", "('\\x02', '\\x1f', '\\x7f')", "f(k='\\x03')"]
    return exprs, list(signature.ANNOTATIONS) + ["Literal['a\\xa0b']", "Dict['str', Literal['\\uffff']]"]


class _Unstring(ast.NodeTransformer):
    """the documented treatment of string annotations: parsed and shown unquoted, except inside Literal[...]"""

    def visit_Subscript(self, n: ast.Subscript) -> Any:
        v = self.visit(n.value)
        if (isinstance(v, ast.Name) and v.id == 'Literal') or (isinstance(v, ast.Attribute) and v.attr == 'Literal'):
            return ast.Subscript(value=v, slice=n.slice, ctx=n.ctx)
        return ast.Subscript(value=v, slice=self.visit(n.slice), ctx=n.ctx)

    def visit_Constant(self, n: ast.Constant) -> Any:
        if isinstance(n.value, str):
            return self.visit(ast.parse(n.value, mode='eval').body)
        return n


def _strip_tags(html: str) -> str:
    import html as _html
    import re as _re
    return _html.unescape(_re.sub(r'<[^>]*>', '', html.replace('<br />', '\n')))


def _run_E(case: Dict[str, Any], res: core.Res) -> None:
    import re as _re
    from pydoctor import model, epydoc2stan
    from pydoctor.templatewriter import pages
    from pydoctor.stanutils import flatten
    from twisted.web.template import tags
    exprs, anns = _e_pool()
    exprs = exprs[case['lo']:case['hi']] if case['what'] == 'expr' else []
    anns = anns[case['lo']:case['hi']] if case['what'] == 'ann' else []
    # (Root is a class of this very module: a base written Root[...] names a documented class and keeps its subscript)
    lines = ['import typing as t', 'import typing, typing_extensions, typing_extensions as te', 'from typing import *', 'class Root:', '    pass']
    items: List[Tuple[str, str, str, str]] = []      # (position, object name, source expression, 'expr'|'ann')
    for i, e in enumerate(exprs):
        if _roundtrips(e, ('inline',)) is not True or '\n' in e or 'yield' in e or 'await' in e:
            res.c('display_skipped_judged_by_main_part')
            continue
        lines.append(f'CONST_{i} = {e}')
        items.append(('constant-value', f'CONST_{i}', e, 'expr'))
        lines.append(f'@deco_{i}({e})\ndef dec_{i}(): pass')
        items.append(('decorator-argument', f'dec_{i}', e, 'expr'))
        lines.append(f'class Base_{i}(Root[{e}]): pass')
        items.append(('base-class', f'Base_{i}', e, 'expr'))
        lines.append(f'class Holder_{i}:\n    CV_{i} = {e}')
        items.append(('constant-value', f'Holder_{i}.CV_{i}', e, 'expr'))
    for i, a in enumerate(anns):
        try:
            exp = _Unstring().visit(ast.parse(a, mode='eval').body)
            ast.unparse(exp)
        except (SyntaxError, ValueError):
            continue
        lines.append(f'var_{i}: {a} = 1')
        items.append(('variable-annotation', f'var_{i}', a, 'ann'))
        lines.append(f'class K_{i}:\n    cv_{i}: {a} = 1\n    def __init__(self):\n        self.iv_{i}: {a} = 1')
        items.append(('variable-annotation', f'K_{i}.cv_{i}', a, 'ann'))
        items.append(('variable-annotation', f'K_{i}.iv_{i}', a, 'ann'))
        lines.append(f'Alias_{i}: TypeAlias = {a}')
        items.append(('type-alias', f'Alias_{i}', a, 'ann'))
    system = model.System()
    system.options.verbosity = -10
    b = system.systemBuilder(system)
    src = '\n'.join(lines) + '\n'
    b.addModuleString(src, 'disp')
    b.buildModules()
    for pos, name, e, kind in items:
        o = system.allobjects.get('disp.' + name)
        w = {'position': pos, 'expression': e, 'object': name}
        if o is None:
            try:
                dotted = all(isinstance(x, (ast.Name, ast.Attribute, ast.Load)) for x in ast.walk(ast.parse(e, mode='eval').body))
            except (SyntaxError, ValueError):
                dotted = False
            if dotted:
                res.c('display_plain_name_is_an_alias_not_a_value')     # `X = a.b` is documented as an alias of a.b, by design
                continue
            res.v(f'C15:display:{pos}:object-missing', f'{name} ({pos} of {e!r}) is not documented', **w)
            continue
        try:
            if pos in ('constant-value', 'type-alias'):
                html = flatten(epydoc2stan.format_constant_value(o))
                m = _re.search(r'<pre class="constant-value"><code>(.*?)</code></pre>', html, _re.S)
                shown = _strip_tags(m.group(1)) if m else None
            elif pos == 'variable-annotation':
                t = epydoc2stan.type2stan(o)
                shown = _strip_tags(flatten(t)) if t is not None else None
            elif pos == 'decorator-argument':
                html = flatten(tags.transparent(*pages.format_decorators(o)))
                shown = _strip_tags(html).strip()
                shown = shown[len(f'@deco_{name.split("_")[1]}('):-1] if shown.startswith('@deco_') else shown
            else:
                html = flatten(pages.format_class_signature(o))
                shown = _strip_tags(html).strip()
                shown = shown[len('(Root['):-2] if shown.startswith('(Root[') else shown
        except Exception as ex:  # noqa: BLE001
            res.v(f'C15:display:{pos}:raises:{type(ex).__name__}', f'{pos} of {e!r} raised {ex!r}', **w)
            continue
        res.c('display_positions_compared')
        res.c(f'display_{pos}')
        if shown is None:
            res.v(f'C15:display:{pos}:not-shown', f'{pos} of {e!r}: nothing is displayed', **w)
            continue
        flat = shown.replace(WRAP + '\n', '').replace(WRAP, '')
        try:
            exp_tree = ast.parse(e, mode='eval').body
            if kind == 'ann':
                exp_tree = _Unstring().visit(exp_tree)
            if pos == 'base-class' or pos == 'decorator-argument':
                # a parenthesised tuple in a subscript / a lone argument is the same tree with or without the parentheses
                got = ast.parse(f'Root[{flat}]' if pos == 'base-class' else f'f({flat})', mode='eval').body
                exp_tree = ast.parse(f'Root[{e}]' if pos == 'base-class' else f'f({e})', mode='eval').body
            else:
                got = ast.parse(flat, mode='eval').body
        except (SyntaxError, ValueError) as ex:
            res.v(f'C15:display:{pos}:unreadable', f'{pos} of {e!r} is displayed as {shown!r}, which does not read back ({ex})', shown=shown, **w)
            continue
        d = N.first_diff(N.norm(ast.fix_missing_locations(exp_tree)), N.norm(got))
        if d is not None and pos == 'type-alias':
            # the value of an alias is an expression like any other: showing it as written (inner strings kept) is "the same expression" too
            d = N.first_diff(N.norm(ast.parse(e, mode='eval').body), N.norm(got))
        if d is not None:
            res.v(f'C15:display:{pos}:differs', f'{pos} of {e!r} is displayed as {shown!r}: {d}', shown=shown, **w)
    res.c('evaluations', len(items))
    for pos, name, e, kind in items[:400]:
        res.distinct(f'E|{pos}|{e}')
    res.sample({'part': 'E', 'what': case['what'], 'range': [case['lo'], case['hi']]})


def worker_init() -> None:
    global colorize_pyval, colorize_inline_pyval, node2stan
    from pydoctor.epydoc.markup._pyval_repr import colorize_pyval as a, colorize_inline_pyval as b
    from pydoctor import node2stan as c
    colorize_pyval, colorize_inline_pyval, node2stan = a, b, c


WRAP = chr(8629)


def _text(doc: Any) -> str:
    return ''.join(node2stan.gettext(doc.to_node()))


def _has(node: ast.AST, pred) -> bool:
    return any(pred(n) for n in ast.walk(node))


def _render(node: ast.AST, mode: Tuple) -> Tuple[Optional[Any], Optional[str], Optional[BaseException]]:
    try:
        if mode == ('inline',):
            doc = colorize_inline_pyval(node)
        else:
            doc = colorize_pyval(node, mode[0], mode[1])
        return doc, _text(doc), None
    except Exception as e:  # noqa: BLE001
        return None, None, e


# ---- mechanism localisation by replacement ---------------------------------------------------------
# Each known mechanism is a *syntactic pattern* together with a rewrite that removes the pattern from the
# expression while keeping everything else. A failing expression is attributed to a known mechanism only if
# (a) with all patterns rewritten it round-trips, and (b) putting that one pattern back makes it fail again.
# Anything that still fails with all known patterns rewritten is reported under its own (new) key, so a
# known finding can never hide a different defect in the same expression.

class _Rewrite(ast.NodeTransformer):
    def __init__(self, active: set) -> None:
        self.active = active
        self.hit: set = set()

    def visit_JoinedStr(self, n: ast.JoinedStr) -> Any:
        if 'fstring-via-astor' in self.active:
            self.hit.add('fstring-via-astor')
            return ast.Name(id='zz_fstring', ctx=ast.Load())
        return self.generic_visit(n)

    def visit_Tuple(self, n: ast.Tuple) -> Any:
        self.generic_visit(n)
        if 'one-element-tuple' in self.active and len(n.elts) == 1 and not isinstance(n.elts[0], ast.Starred):
            self.hit.add('one-element-tuple')
            return ast.Tuple(elts=[n.elts[0], ast.Name(id='zz_tuple', ctx=ast.Load())], ctx=ast.Load())
        return n

    def visit_Constant(self, n: ast.Constant) -> Any:
        if 'float-overflow-inf' in self.active and isinstance(n.value, (float, complex)):
            v = n.value
            if (isinstance(v, float) and v in (float('inf'), float('-inf'))) or \
                    (isinstance(v, complex) and float('inf') in (abs(v.real), abs(v.imag))):
                self.hit.add('float-overflow-inf')
                return ast.Constant(value=1.5)
        return n

    def visit_Dict(self, n: ast.Dict) -> Any:
        self.generic_visit(n)
        if 'dict-unpack-precedence-via-astor' in self.active and any(k is None for k in n.keys):
            self.hit.add('dict-unpack-precedence-via-astor')
            n.keys = [k if k is not None else ast.Name(id='zz_unpack', ctx=ast.Load()) for k in n.keys]
        return n

    def visit_Slice(self, n: ast.Slice) -> Any:
        self.generic_visit(n)
        if 'slice-bound-tuple-via-astor' in self.active:
            for f in ('lower', 'upper', 'step'):
                b = getattr(n, f)
                if isinstance(b, ast.Tuple):
                    self.hit.add('slice-bound-tuple-via-astor')
                    setattr(n, f, ast.List(elts=b.elts, ctx=ast.Load()))
        return n


KNOWN_PATTERNS = ['fstring-via-astor', 'one-element-tuple', 'float-overflow-inf', 'dict-unpack-precedence-via-astor',
                  'slice-bound-tuple-via-astor']


def _roundtrips(src: str, mode: Tuple) -> Optional[bool]:
    """True if the rendering of src (complete) parses back to src's tree; None if it cannot be judged."""
    try:
        node = ast.parse(src, mode='eval').body
    except (SyntaxError, ValueError, RecursionError):
        return None
    doc, text, exc = _render(node, mode)
    if exc is not None or text is None:
        return False
    if not doc.is_complete:
        return None
    flat = text.replace(WRAP + '\n', '')
    try:
        got = N.norm(ast.parse(flat, mode='eval').body)
    except (SyntaxError, ValueError, RecursionError):
        return False
    return N.first_diff(N.norm(ast.parse(src, mode='eval').body), got) is None


def _rewrite(src: str, active: set) -> Tuple[Optional[str], set]:
    tree = ast.parse(src, mode='eval')
    rw = _Rewrite(active)
    tree = rw.visit(tree)
    ast.fix_missing_locations(tree)
    try:
        return ast.unparse(tree), rw.hit
    except Exception:  # noqa: BLE001
        return None, rw.hit


def _smallest_failing(src: str, mode: Tuple) -> Tuple[str, str]:
    """Type-based key and text of the smallest sub-expression whose own rendering does not round-trip."""
    tree = ast.parse(src, mode='eval').body
    best = None
    best_size = 10 ** 9
    for sub in ast.walk(tree):
        if not isinstance(sub, ast.expr) or isinstance(sub, (ast.Starred, ast.Slice)):
            continue
        size = sum(1 for _ in ast.walk(sub))
        if size >= best_size:
            continue
        try:
            ssrc = ast.unparse(sub)
            ast.parse(ssrc, mode='eval')
        except (SyntaxError, ValueError):
            continue
        if _roundtrips(ssrc, mode) is False:
            best, best_size = sub, size
    if best is None:
        return 'context-dependent', src[:200]
    kids = sorted({type(c).__name__ for c in ast.iter_child_nodes(best) if isinstance(c, (ast.expr, ast.Slice))})
    node = ast.parse(ast.unparse(best), mode='eval').body
    _d, text, _e = _render(node, mode)
    return f'{type(best).__name__}({",".join(kids)})', f'{ast.unparse(best)!r} is shown as {text!r}'


def _localise(src: str, mode: Tuple) -> List[Tuple[str, str]]:
    """[(mechanism key, explanation)] for an expression whose rendering failed to round-trip."""
    allp = set(KNOWN_PATTERNS)
    # judge the rewritten expressions without a line limit: they may be longer than the original and a
    # truncated rendering cannot be read back
    if mode != ('inline',):
        mode = (mode[0], 0)
    clean, hit = _rewrite(src, allp)
    if clean is not None and _roundtrips(clean, mode) is None:
        mode = (None, 0)
    if clean is None or not hit or _roundtrips(clean, mode) is not True:
        # not explained by the known mechanisms (or not by them alone)
        base = clean if (clean is not None and _roundtrips(clean, mode) is False) else src
        key, mini = _smallest_failing(base, mode)
        return [(f'C15:roundtrip:{key}', f'smallest failing sub-expression (known patterns rewritten): {mini}')]
    out = []
    for p in sorted(hit):
        only, _ = _rewrite(src, allp - {p})
        if only is not None and _roundtrips(only, mode) is False:
            _k, mini = _smallest_failing(only, mode)
            out.append((f'C15:{p}', f'{mini}'))
    if not out:
        # fails only through an interaction of several patterns
        for p in sorted(hit):
            out.append((f'C15:{p}', 'fails only through the interaction of the known patterns ' + '+'.join(sorted(hit))))
    return out


def _judge(res: core.Res, name: str, src: str) -> None:
    try:
        tree = ast.parse(src, mode='eval')
    except (SyntaxError, ValueError, RecursionError):
        res.c('generator_discards')
        return
    body = tree.body
    exp = N.norm(copy.deepcopy(body))
    nontrivial = not isinstance(body, (ast.Constant, ast.Name))
    if nontrivial:
        res.distinct(src)
    res.c('evaluations')
    modes: List[Tuple] = [(None, 0), ('inline',)]
    h = sum(map(ord, src))
    modes.append(SETTINGS[h % len(SETTINGS)])
    if h % 3 == 0:
        modes.append(SETTINGS[(h // 3) % len(SETTINGS)])
    for mode in modes:
        node = ast.parse(src, mode='eval').body      # fresh tree per rendering (the colouriser annotates parents)
        doc, text, exc = _render(node, mode)
        w = {'source': src, 'mode': list(mode), 'form': name}
        if exc is not None:
            res.v(f'C15:raises:{type(exc).__name__}', f'colorize of {src!r} mode={mode} raised {exc!r}', **w)
            continue
        assert text is not None
        res.c('rendered_inline' if mode == ('inline',) else 'rendered_block')
        if '??' in text and not doc.warnings and '??' not in src:
            res.v('C15:unknown-placeholder-without-warning', f'{src!r} shown as {text!r} with no warning', shown=text, **w)
        if WRAP in text:
            res.c('wrapped_outputs')
        if not doc.is_complete:
            res.c('truncated_outputs')
            if not text.endswith('...'):
                res.v('C15:truncated-without-ellipsis', f'{src!r} mode={mode}: is_complete=False but shown {text!r} does not end with the ellipsis marker', shown=text, **w)
            continue
        # complete: every cut must carry the wrap marker, i.e. removing "marker+newline" restores the expression
        flat = text.replace(WRAP + '\n', '')
        if WRAP in flat:
            res.v('C15:stray-wrap-marker', f'{src!r} mode={mode}: wrap marker not followed by a line break in {text!r}', shown=text, **w)
            continue
        try:
            got_tree = ast.parse(flat, mode='eval').body
        except (SyntaxError, ValueError, RecursionError):
            for key, why in _localise(src, mode):
                res.v(key, f'{src!r} mode={mode} is shown as {text!r}, which is not a Python expression; {why}'[:1200], shown=text, why=why, **w)
            continue
        res.c('parsed_back')
        got = N.norm(got_tree)
        d = N.first_diff(exp, got)
        if d is not None:
            for key, why in _localise(src, mode):
                res.v(key, f'{src!r} mode={mode} is shown as {text!r}, which reads back as a different expression; {why}'[:1200], shown=text, why=why, **w)


def run_case(case: Dict[str, Any]) -> core.Res:
    res = core.Res()
    part = case['part']
    if part == 'E':
        _run_E(case, res)
        return res
    if part == 'random':
        r = core.rng(case['seed'], 'C15', case['k'])
        items = [(f'random{i}', G.random_expr(r, r.randint(2, 6))) for i in range(case['n'])]
    else:
        it = getattr(G, part)()
        if 'lo' in case:
            import itertools
            it = itertools.islice(it, case['lo'], case['hi'], case.get('step', 1))
        items = list(it)
    for name, src in items:
        _judge(res, name, src)
    if items:
        res.sample({'form': items[len(items) // 2][0], 'source': items[len(items) // 2][1]})
    return res


def finish(agg: Dict[str, Any], tier: str, seed: int) -> None:
    agg['exhaustive'] = True
    agg['extra'] = {'exhaustive_part': 'depth-2 trees (every form x hole x inner form), depth-3 operator chains, literal leaves; random part sampled'}
