"""C03 -- what is documented in each namespace is what Python defines there (reference model: CPython importing the same files)."""
from __future__ import annotations

import ast
import inspect
import traceback
from typing import Any, Dict, List, Optional, Set, Tuple

from vf import core
from vf.gen import project, projrun

ID = 'C03'
LEVEL = 'exploration'
RULE = ('generated importable multi-module packages in the agreed subset (definitions at module/class level and inside '
        'taken if/try/with/for bodies, decorators incl. old-style wrapping and property setters, attribute docstrings, '
        'nested classes, docstring layouts; function-local and __main__-guarded definitions present as negative '
        'controls). Each project is imported by CPython in a fresh subprocess (vars(), inspect) and analysed by pydoctor; '
        'every module and class namespace is compared name by name. Distinct by project; non-trivial if it has a class '
        'with members and a decorated function. Names the generator knows to be import-bound, interpreter dunders, the '
        'harness prelude and for-loop targets are outside the comparison.')
ASSUME = ['CPython 3.12 import semantics are the reference', 'projects that CPython cannot import are generator discards (counted)']
DECIDING = {'namespaces_compared': 500, 'names_compared': 3000, 'docstrings_compared': 2000, 'kinds_compared': 3000, 'types_compared': 200}
CPU_S = 900
PER = 10

PRELUDE_NAMES = {'_contextlib', '_noop', '_ctx', '_i', 'TYPE_CHECKING'}


def cases(tier: str, seed: int) -> List[Dict[str, Any]]:
    n = 300 if tier == 'quick' else 6000
    return [{'seed': seed, 'k': k, 'n': PER} for k in range(0, n, PER)]


def worker_init() -> None:
    from vf.mon import msgs
    msgs.install()


def _import_bound(spec: project.Spec, mid: int, items: List[project.Item], dump: Dict[str, Any]) -> Set[str]:
    out: Set[str] = set()
    for it in items:
        if it.kind == 'import':
            out.update(b[0] for b in it.binds)
            if it.star_from:
                src = dump['modules'].get(it.star_from)
                if src is not None:
                    names = src['all'] if src['all'] is not None else [n for n in src['ns'] if not n.startswith('_')]
                    out.update(names)
        elif it.kind in ('block', 'dup'):
            out |= _import_bound(spec, mid, it.members, dump)
    return out


def _class_items(items: List[project.Item], hist: Optional[Dict[str, List[project.Item]]] = None) -> Dict[str, project.Item]:
    """last definition of each name in a namespace (`hist`, if given, collects all of them in order)"""
    out = {}
    for it in items:
        if it.kind in ('block', 'dup', 'main'):
            if it.kind != 'main':
                out.update(_class_items(it.members, hist))
        elif it.kind in ('class', 'func', 'var'):
            out[it.name] = it
            if hist is not None:
                hist.setdefault(it.name, []).append(it)
    return out


def _compare_ns(res: core.Res, spec: project.Spec, label: str, where: str, rt_ns: Dict[str, Any], obj: Any, items: List[project.Item],
                dump: Dict[str, Any], mid: int, is_class: bool, this_mod: str) -> None:
    from pydoctor import model
    K = model.DocumentableKind
    res.c('namespaces_compared')
    bound = _import_bound(spec, mid, items, dump)
    hist: Dict[str, List[project.Item]] = {}
    specitems = _class_items(items, hist)
    w = {'project': label, 'namespace': where}
    rt_names = {n for n, i in rt_ns.items()
                if not (n.startswith('__') and n.endswith('__')) and n not in PRELUDE_NAMES and n not in bound and i.get('kind') != 'module'}
    # runtime objects defined elsewhere and bound here by an import the generator does not list (none expected)
    doc_names = {n for n, o in obj.contents.items() if not isinstance(o, model.Module)}
    for n in sorted(rt_names):
        info = rt_ns[n]
        res.c('names_compared')
        o = obj.contents.get(n)
        if o is None:
            res.v('C03:defined-but-not-documented', f'{label}: {where}.{n} is bound at run time ({info["kind"]}) but not documented', name=n, **w)
            continue
        if sum(1 for k in obj.contents if k == n) != 1:
            res.v('C03:documented-twice', f'{label}: {where}.{n} documented twice', name=n, **w)
        # kind
        res.c('kinds_compared')
        kind = info['kind']
        exp: Optional[Any] = None
        if kind == 'class':
            exp = K.EXCEPTION if info.get('is_exc') else K.CLASS
            ok = isinstance(o, model.Class) and o.kind is exp
        elif kind == 'function':
            exp = K.FUNCTION
            ok = isinstance(o, model.Function) and o.kind is exp
        elif kind == 'method':
            exp = K.METHOD
            ok = isinstance(o, model.Function) and o.kind is exp
        elif kind == 'classmethod':
            exp = K.CLASS_METHOD
            ok = isinstance(o, model.Function) and o.kind is exp
        elif kind == 'staticmethod':
            exp = K.STATIC_METHOD
            ok = isinstance(o, model.Function) and o.kind is exp
        elif kind == 'property':
            exp = K.PROPERTY
            ok = isinstance(o, model.Attribute) and o.kind is exp
            has_setter = f'{n}.setter' in obj.contents
            if has_setter != bool(info.get('fset')):
                res.v('C03:property-setter', f'{label}: {where}.{n}: setter documented={has_setter}, run time fset={info.get("fset")}', name=n, **w)
        else:
            ok = isinstance(o, model.Attribute) and o.kind in (K.VARIABLE, K.CONSTANT, K.CLASS_VARIABLE, K.INSTANCE_VARIABLE, K.ATTRIBUTE,
                                                                K.TYPE_ALIAS, K.TYPE_VARIABLE)
            exp = 'a variable kind'
        if not ok:
            res.v(f'C03:kind:{kind}', f'{label}: {where}.{n} is a {kind} at run time, documented as {type(o).__name__}/{getattr(o.kind, "name", None)} (expected {getattr(exp, "name", exp)})', name=n, **w)
        if kind in ('function', 'method') and isinstance(o, model.Function):
            if bool(info.get('async')) != bool(o.is_async):
                res.v('C03:coroutine-flag', f'{label}: {where}.{n}: coroutine at run time={info.get("async")}, is_async={o.is_async}', name=n, **w)
        # docstring
        if kind != 'value':
            res.c('docstrings_compared')
            rdoc = info.get('doc')
            pdoc = o.docstring
            if (rdoc or None) != (pdoc or None) or ((rdoc is None) != (pdoc is None) and not (rdoc in (None, '') and pdoc in (None, ''))):
                res.v('C03:docstring', f'{label}: {where}.{n}: interpreter reports {rdoc!r}, pydoctor has {pdoc!r}', name=n, **w)
        else:
            it = specitems.get(n)
            if it is not None and it.kind == 'var':
                res.c('docstrings_compared')
                earlier_doc = any(h.doc for h in hist.get(n, [])[:-1])
                if it.doc is None and earlier_doc:
                    # a variable rebound without a docstring of its own: attribute docstrings are a documentation convention,
                    # the interpreter reports nothing for them, so keeping the earlier one is not judged
                    res.c('rebound_variable_docstring_not_judged')
                elif (it.doc or None) != (o.docstring or None):
                    res.v('C03:attribute-docstring', f'{label}: {where}.{n}: written {it.doc!r}, pydoctor has {o.docstring!r}', name=n, **w)
                if it.ann is None and isinstance(o, model.Attribute) and o.annotation is not None:
                    res.c('types_compared')
                    ann = ast.unparse(o.annotation)
                    base = ann.split('[')[0]
                    if base != info.get('type'):
                        res.v('C03:inferred-type', f'{label}: {where}.{n} = {it.value}: inferred {ann}, actual type {info.get("type")}', name=n, **w)
                    elif '[' in ann:
                        elem = info.get('elem')
                        inner = ann[len(base) + 1:-1]
                        if base == 'dict':
                            okk = isinstance(elem, list) and len(elem) == 2 and all(len(e) == 1 for e in elem) and inner.replace(' ', '') == f'{elem[0][0]},{elem[1][0]}'
                        elif base == 'tuple':
                            okk = isinstance(elem, list) and len(elem) == 1 and inner.replace(' ', '') == f'{elem[0]},...'
                        else:
                            okk = isinstance(elem, list) and len(elem) == 1 and inner == elem[0]
                        if not okk:
                            res.v('C03:inferred-type', f'{label}: {where}.{n} = {it.value}: inferred {ann}, actual element types {elem}', name=n, **w)
        # recurse into classes defined here
        if kind == 'class' and 'ns' in info and isinstance(o, model.Class):
            it = specitems.get(n)
            _compare_ns(res, spec, label, f'{where}.{n}', info['ns'], o, it.members if it is not None else [], dump, mid, True, this_mod)
    for n in sorted(doc_names - rt_names):
        if n.endswith('.setter') or n.endswith('.deleter'):
            continue
        if n in bound and n in rt_ns:
            # documented although import-bound: only legitimate for re-exports (not generated here)
            res.v('C03:import-documented', f'{label}: {where}.{n} is bound by an import but documented as {type(obj.contents[n]).__name__}', name=n, **w)
            continue
        if n in rt_ns and rt_ns[n].get('kind') == 'module':
            continue
        if n in PRELUDE_NAMES:
            continue
        res.v('C03:documented-but-not-defined', f'{label}: {where}.{n} is documented ({type(obj.contents[n]).__name__}) but executing the code does not bind it', name=n, **w)


def run_case(case: Dict[str, Any]) -> core.Res:
    res = core.Res()
    specs = [project.generate(core.rng('C03', case['seed'], case['k'] + j), project.Features.namespace()) for j in range(case['n'])]
    with projrun.TmpProjects(specs, seed=('C03', case['seed'], case['k'])) as tp:
        dumps = projrun.cpython_dump([str(d) for d in tp.dirs])
        for j, spec in enumerate(specs):
            label = f"C03:{case['seed']}:{case['k'] + j}"
            dump = dumps.get(str(tp.dirs[j]))
            if not dump or 'error' in dump:
                res.c('generator_discards')
                continue
            try:
                system = projrun.build_system(tp.roots[j])
            except Exception as e:  # noqa: BLE001
                res.v(f'C03:analysis-raises:{type(e).__name__}', f'{label}: analysing an importable package raised {e!r}', traceback=traceback.format_exc()[-1500:],
                      sources=project.sources(spec, seed=(('C03', case['seed'], case['k']), j)))
                continue
            res.c('evaluations')
            has_members = any(it.kind == 'class' and it.members for m in spec.mods for it in m.items)
            if has_members:
                res.distinct(label)
            for m in spec.mods:
                full = spec.modname(m.mid)
                rt = dump['modules'].get(full)
                mod = system.allobjects.get(full)
                if rt is None:
                    continue
                if mod is None:
                    res.v('C03:module-missing', f'{label}: module {full} not documented', project=label)
                    continue
                if (rt['doc'] or None) != (mod.docstring or None):
                    res.v('C03:docstring', f'{label}: module {full}: interpreter reports {rt["doc"]!r}, pydoctor has {mod.docstring!r}', project=label, namespace=full, name='')
                n0 = len(res.viol)
                _compare_ns(res, spec, label, full, rt['ns'], mod, m.items, dump, m.mid, False, full)
                if len(res.viol) > n0:
                    for v in res.viol[n0:]:
                        v['witness'].setdefault('source', project.source(spec, m, __import__('random').Random(f"print/{(('C03', case['seed'], case['k']), j)}/{m.mid}")))
    if specs:
        res.sample({'project': f"C03:{case['seed']}:{case['k']}", 'modules': [specs[0].modname(m.mid) for m in specs[0].mods]})
    return res
