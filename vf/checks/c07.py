"""C07 -- a re-exported object is documented once, where exported, and stays reachable (generator ground truth)."""
from __future__ import annotations

import traceback
from typing import Any, Dict, List, Optional, Tuple

from vf import core
from vf.gen import project, projrun

ID = 'C07'
LEVEL = 'exploration'
RULE = ('generated packages in which each object has at most one re-exporter (package __init__ or sibling module; plain, '
        'renamed or star import), objects also listed in the defining module\'s own __all__ as negative controls, and '
        'consumer modules that import the object from the defining module, from the re-exporting module, through a '
        'module alias, or both, use it as base class, annotation and in docstring cross-references by old and by new '
        'qualified name; every reachable processing order (<= max_orders, else sampled). Expected locations come from '
        'the generator. Distinct: (project, realised order); non-trivial: at least one object was actually moved.')
ASSUME = ['only the single-re-exporter shape the statement describes is generated',
          'a violation is credited to the known stale-import mechanism only if it disappears when that mechanism alone is repaired (vf/mon/repairs.py) and the same order is re-run']
DECIDING = {'base_links_checked': 100, 'insider_annotations_checked': 100, 'insider_annotations_name_not_bound_by_reexporter': 50, 'moved_objects_checked': 300, 'consumer_refs_checked': 1000, 'xrefs_checked': 1000, 'base_refs_checked': 200, 'orders_run': 300,
            'negative_controls': 20}
CPU_S = 900
PER = 5


def cases(tier: str, seed: int) -> List[Dict[str, Any]]:
    n = 120 if tier == 'quick' else 2500
    return [{'seed': seed, 'k': k, 'n': PER, 'max_orders': 6 if tier == 'quick' else 24} for k in range(0, n, PER)] + [{'part': 'D', 'name': nm} for nm in DIRECTED]


def worker_init() -> None:
    from vf.mon import msgs, sched
    msgs.install()
    sched.install_cycle_monitors()


def _check_system(spec: project.Spec, system: Any, res: Optional[core.Res]) -> List[Tuple[Any, ...]]:
    """[(problem id, message[, details])]"""
    from pydoctor import model
    out: List[Tuple[Any, ...]] = []

    def c(name: str, n: int = 1) -> None:
        if res is not None:
            res.c(name, n)
    allo = system.allobjects
    not_moved: set = set()
    for uid, (rmid, exported) in spec.moved.items():
        dmid, qual, kind = spec.defs[uid]
        old = spec.def_fullname(uid)
        new = f'{spec.modname(rmid)}.{exported}'
        c('moved_objects_checked')
        o = allo.get(new)
        star = system.__dict__.get('_vf_star_in_progress', []) + system.__dict__.get('_vf_from_in_progress', [])
        # the known mechanism: the import ran while the defining module was being processed *and had not bound the name yet*
        bound_then = system.__dict__.get('_vf_in_progress_bound', {}).get((spec.modname(rmid), spec.modname(dmid)))
        if (o is None or (old in allo and allo[old] is not o)) and (spec.modname(rmid), spec.modname(dmid)) in star and (bound_then is None or qual not in bound_then):
            # (what sits at the exported name, if anything, is something the re-exporting module bound itself before the import)
            out.append(('import-from-module-in-progress', f'{old} is re-exported as {new} by an import that ran while {spec.modname(dmid)} was still being processed (import cycle): it is not moved to {new}'))
            not_moved.add(uid)
            continue
        if o is None:
            out.append(('not-at-exported-name', f'{old} is re-exported as {new} but nothing is documented there'))
            continue
        if o.parent is None or o.parent.contents.get(o.name) is not o:
            out.append(('exported-object-not-in-its-module', f'{new} is registered but is not an entry of {o.parent!r}: it would be documented nowhere'))
        if old in allo and allo[old] is not o:
            out.append(('still-at-old-name', f'{old} is re-exported as {new} but is still documented under the defining module ({allo[old]!r})'))
        stale = [k for k in allo if k.startswith(old + '.')]
        if stale:
            out.append(('members-at-old-name', f'members of {old} are still registered under the defining module: {stale[:3]}'))
        # members follow
        for uid2, (mid2, q2, k2) in spec.defs.items():
            if mid2 == dmid and q2.startswith(qual + '.'):
                exp = new + q2[len(qual):]
                if exp not in allo and ' ' not in exp:
                    # members hidden in not-taken places do not exist; only definitions pydoctor documents at all are expected
                    if any(k.endswith(q2[len(qual):]) for k in allo):
                        out.append(('member-not-under-new-name', f'member {q2} of the re-exported {old} is not documented as {exp}'))
    # negative controls: objects listed in the defining module's own __all__ must not move
    for m in spec.mods:
        own_all = spec.notes.get(('all', m.mid))
        if not own_all:
            continue
        for (mid, q), uid in spec.notes['qual2uid'].items():
            if mid == m.mid and '.' not in q and q in own_all and uid not in spec.moved:
                c('negative_controls')
                full = f'{spec.modname(mid)}.{q}'
                if full not in allo:
                    out.append(('control-moved', f'{full} is exported by its own module and must stay there, but is not documented there'))
    # consumers
    for cons in spec.notes.get('consumers', []):
        uid = cons['uid']
        if uid in not_moved:
            continue
        rmid, exported = spec.moved[uid]
        new = f'{spec.modname(rmid)}.{exported}'
        old = spec.def_fullname(uid)
        target = allo.get(new)
        cmod = allo.get(spec.modname(cons['mid']))
        if target is None or not isinstance(cmod, model.Module):
            continue
        cu = cons['cu']
        for i, (ref, how) in enumerate(cons['refs']):
            c('consumer_refs_checked')
            got = cmod.resolveName(ref)
            if got is not target:
                out.append((f'consumer-import:{cons["style"]}', f'in {cmod.fullName()}, {ref!r} (imported {cons["style"]}) resolves to {got!r}, not to the one documented object {target!r}'))
            if cons['kind'] == 'class':
                u = cmod.contents.get(f'U{cu}_{i}')
                if isinstance(u, model.Class):
                    c('base_refs_checked')
                    if any(b is target for b in u.baseobjects):
                        # ... and the page of the subclass says so: the base in its signature links to the one documented object
                        try:
                            from pydoctor.templatewriter import pages as _pages
                            from pydoctor.stanutils import flatten as _flatten
                            import re as _re2
                            hrefs = _re2.findall(r'href="([^"]+)"', _flatten(_pages.format_class_signature(u)))
                        except Exception as e:  # noqa: BLE001
                            hrefs = [f'<raised {e!r}>']
                        c('base_links_checked')
                        if target.url not in hrefs:
                            out.append((f'consumer-base-link:{cons["style"]}', f'the signature of {u.fullName()} (base written {ref!r}, resolved to {target!r}) links to {hrefs}, not to {target.url}'))
                    if not any(b is target for b in u.baseobjects):
                        out.append((f'consumer-base:{cons["style"]}', f'{u.fullName()} has base written {ref!r}: resolved bases {u.baseobjects!r}, expected {target!r}',
                                    {'consumer': cmod.fullName(), 'reexporter': spec.modname(rmid),
                                     'definer_imports_reexporter': spec.defs[uid][0] in spec.notes.get('definers_importing_reexporter', ())}))
            g = cmod.contents.get(f'g{cu}_{i}')
            if g is not None:
                for name in (ref, old, new):
                    c('xrefs_checked')
                    try:
                        got2 = g.docstring_linker._resolve_identifier_xref(name, 0)
                    except LookupError:
                        got2 = None
                    if got2 is not target:
                        which = 'old-name' if name == old else ('new-name' if name == new else 'local-name')
                        out.append((f'xref:{which}', f'cross-reference L{{{name}}} in {g.fullName()} leads to {got2!r}, not to {target!r}'))
                # annotation
                ann = getattr(g, 'annotations', {}).get('a')
                if ann is not None:
                    from pydoctor.astutils import node2fullname
                    c('consumer_refs_checked')
                    full = node2fullname(ann, g)
                    if full is None or allo.get(full) is not target:
                        out.append((f'annotation:{cons["style"]}', f'annotation {ref!r} of {g.fullName()} expands to {full!r}, not to {new}'))
    # insiders: annotations written in the defining module, on definitions that are re-exported elsewhere
    if spec.notes.get('insiders'):
        import re
        from pydoctor import epydoc2stan
        from pydoctor.stanutils import flatten
        from pydoctor.templatewriter import pages
    for ins in spec.notes.get('insiders', []):
        if ins['uid'] in not_moved:
            continue
        rmid, exported = spec.moved[ins['uid']]
        new = f'{spec.modname(rmid)}.{exported}'
        target = allo.get(new)
        P = spec.modname(ins['pmid'])
        icls, ifn = allo.get(f"{P}.{ins['cls']}"), allo.get(f"{P}.{ins['fn']}")
        if target is None:
            continue
        if not isinstance(icls, model.Class) or not isinstance(ifn, model.Function):
            out.append(('insider-not-at-exported-name', f"{P} re-exports {ins['cls']} and {ins['fn']} but documents {icls!r}, {ifn!r} there"))
            continue
        ok = {target.url, '#' + target.url.split('#')[-1]} if '#' in target.url else {target.url}
        cu = ins['cu']
        shown = [('attribute type', icls.contents.get(f't{cu}'), 1, lambda o: epydoc2stan.type2stan(o)),
                 ('method signature', icls.contents.get(f'im{cu}'), 2, lambda o: pages.format_signature(o)),
                 ('function signature', ifn, 2, lambda o: pages.format_signature(o))]
        for what, o, n, fn in shown:
            if o is None:
                out.append(('insider-member-missing', f'{what} of the re-exported {icls.fullName()}: member not documented'))
                continue
            c('insider_annotations_checked')
            if not (spec.modname(rmid) == P and exported == ins['written']):
                c('insider_annotations_name_not_bound_by_reexporter')
            try:
                stan = fn(o)
                hrefs = re.findall(r'href="([^"]+)"', flatten(stan)) if stan is not None else []
            except Exception as e:  # noqa: BLE001
                out.append(('insider-annotation-raises', f'{what} of {o.fullName()}: rendering raised {e!r}'))
                continue
            if len(hrefs) < n or any(h not in ok for h in hrefs):
                out.append((f'insider-annotation:{what.replace(" ", "-")}', f'{what} of {o.fullName()} names {ins["written"]!r} (written in the defining module, '
                            f'now documented as {new}): link targets {hrefs}, expected {n} x {target.url}'))
    return out


# hand-written projects with the expected moves stated ({old qualified name: new qualified name}); every reachable order
DIRECTED: Dict[str, Any] = {
    # the re-exporter takes the name from a module that merely imported it; the *defining* module lists it in its own __all__, the module it is
    # imported from does not: the object moves
    'chained-import': ({'pkg/__init__.py': '', 'pkg/_core.py': "class Thing:\n    def m(self): pass\ndef helper(): pass\n__all__ = ['Thing', 'helper']\n",
                        'pkg/_mid.py': 'from pkg._core import Thing, helper\n', 'pkg/api.py': "from pkg._mid import Thing, helper as aid\n__all__ = ['Thing', 'aid']\n",
                        'pkg/user.py': 'from pkg.api import Thing\nclass U(Thing):\n    pass\n'},
                       {'pkg._core.Thing': 'pkg.api.Thing', 'pkg._core.helper': 'pkg.api.aid', 'pkg._core.Thing.m': 'pkg.api.Thing.m'}),
    # objects defined in a package __init__ and re-exported by a submodule whose name starts with the name of one of them
    'reexporter-name-starts-with-object-name': ({'pkg/__init__.py': 'def emit(): pass\nclass Event:\n    def fire(self): pass\nclass Sink: pass\n',
                                                 'pkg/emitter.py': "from pkg import emit, Event, Sink as Drain\n__all__ = ['emit', 'Event', 'Drain']\n",
                                                 'pkg/eventlog.py': "from pkg.emitter import Event\nclass Logged(Event):\n    pass\n"},
                                                {'pkg.emit': 'pkg.emitter.emit', 'pkg.Event': 'pkg.emitter.Event', 'pkg.Sink': 'pkg.emitter.Drain', 'pkg.Event.fire': 'pkg.emitter.Event.fire'}),
}


def _run_directed(case: Dict[str, Any], res: core.Res) -> None:
    import shutil
    import tempfile
    from pathlib import Path
    from vf.mon import sched
    srcs, expect = DIRECTED[case['name']]
    base = Path(tempfile.mkdtemp(prefix='vf07d-'))
    try:
        for rel, text in srcs.items():
            pth = base / rel
            pth.parent.mkdir(parents=True, exist_ok=True)
            pth.write_text(text)
        orders: List[List[str]] = []
        projrun.build_system([base / 'pkg'], order=lambda system: orders.extend(sched.all_orders(system, limit=120)))
        for od in orders:
            label = f"directed:{case['name']}"
            try:
                system = projrun.build_system([base / 'pkg'], order=lambda system, od=od: sched.apply_order(system, od))
            except Exception as e:  # noqa: BLE001
                res.v(f'C07:analysis-raises:{type(e).__name__}', f'{label}: analysis raised {e!r} under {od}', order=od, sources=srcs)
                continue
            res.c('orders_run')
            res.c('evaluations')
            res.c('directed_orders')
            res.distinct(f'{label}/{",".join(od)}')
            for old, new in expect.items():
                res.c('moved_objects_checked')
                if new not in system.allobjects:
                    res.v('C07:not-at-exported-name', f'{label} order {od}: {old} is re-exported as {new} but nothing is documented there', order=od, sources=srcs)
                if old in system.allobjects:
                    res.v('C07:still-at-old-name', f'{label} order {od}: {old} is re-exported as {new} but is still documented under its old name', order=od, sources=srcs)
    finally:
        shutil.rmtree(base, ignore_errors=True)
    res.sample({'directed': case['name']})


def run_case(case: Dict[str, Any]) -> core.Res:
    from vf.mon import sched, repairs
    res = core.Res()
    if case.get('part') == 'D':
        _run_directed(case, res)
        return res
    specs = [project.generate(core.rng('C07', case['seed'], case['k'] + j), project.Features.reexport()) for j in range(case['n'])]
    with projrun.TmpProjects(specs, seed=('C07', case['seed'], case['k'])) as tp:
        for j, spec in enumerate(specs):
            label = f"C07:{case['seed']}:{case['k'] + j}"
            if not spec.moved:
                res.c('projects_without_moves')
                continue
            orders: List[List[str]] = []
            try:
                projrun.build_system(tp.roots[j], order=lambda system: orders.extend(sched.all_orders(system, limit=300)))
            except Exception as e:  # noqa: BLE001
                res.v(f'C07:analysis-raises:{type(e).__name__}', f'{label}: analysis raised {e!r}', traceback=traceback.format_exc()[-1500:])
                continue
            r = core.rng('C07', 'orders', label)
            keep = orders if len(orders) <= case['max_orders'] else [orders[0]] + r.sample(orders[1:], case['max_orders'] - 1)
            w = {'project': label, 'sources': project.sources(spec, seed=(('C07', case['seed'], case['k']), j))}
            for od in keep:
                try:
                    def inject(system: Any, od: List[str] = od) -> None:
                        sched.apply_order(system, od)
                        system.__dict__['_vf_sched_log'] = sched.record(system)
                    system = projrun.build_system(tp.roots[j], order=inject)
                except Exception as e:  # noqa: BLE001
                    res.v(f'C07:analysis-raises:{type(e).__name__}', f'{label}: analysis raised {e!r} under {od}', order=od, **w)
                    continue
                res.c('orders_run')
                res.c('evaluations')
                res.distinct(f'{label}/{",".join(od)}')
                problems = _check_system(spec, system, res)
                if not problems:
                    continue
                # attribution experiment (same order, known mechanism repaired)
                try:
                    with repairs.stale_import_after_move():
                        sysr = projrun.build_system(tp.roots[j], order=lambda system, od=od: sched.apply_order(system, od))
                        repaired = {p[1] for p in _check_system(spec, sysr, None)}
                except Exception:  # noqa: BLE001
                    repaired = None
                for pid, msg, *details in problems:
                    # the known mechanism concerns names bound by a non-star `from definer import X` or reached as
                    # `definer.X` after `import definer`; star imports and the registry itself are not eligible
                    eligible = pid.split(':')[-1] in ('from-D', 'import-D', 'both') or pid.startswith('xref:')
                    if pid.split(':')[-1] == 'star-D':
                        # a star import binds the then-current full name: it goes stale only if the consumer was
                        # analysed before the re-exporter moved the object (afterwards it must just work)
                        log = system.__dict__.get('_vf_sched_log', [])
                        import re as _re
                        m = _re.search(r'in (\S+), ', msg) or _re.search(r'of (\S+)\.g\d+_\d+ ', msg)
                        cname = m.group(1) if m else None
                        rex = [spec.modname(v[0]) for v in spec.moved.values()]
                        if cname in log and any(x in log and log.index(cname) < log.index(x) for x in rex):
                            eligible = True
                    if pid.startswith('consumer-base:') and pid.split(':')[-1] in ('from-D', 'import-D') and details:
                        # a base written with a name imported from the defining module is bound to the object when the class statement
                        # is visited; it can only have gone stale if the move happened before that, i.e. if the re-exporter was
                        # entered before this consumer (which imports nothing but the defining module) was
                        log = system.__dict__.get('_vf_sched_log', [])
                        cn, rx = details[0]['consumer'], details[0]['reexporter']
                        # (unless the defining module imports the re-exporter itself: importing the definer then brings the move along)
                        if cn in log and rx in log and log.index(cn) < log.index(rx) and not details[0]['definer_imports_reexporter']:
                            eligible = False
                            res.c('consumer_bases_bound_before_the_move')
                    if repaired is not None and msg not in repaired and eligible:
                        res.v('C07:stale-import-after-move', f'{label} order {od}: {msg} (disappears when names imported from the old location are followed)'[:900], order=od, **w)
                    else:
                        res.v(f'C07:{pid}', f'{label} order {od}: {msg}'[:900], order=od, **w)
    res.sample({'project': f"C07:{case['seed']}:{case['k']}", 'moved': [(specs[0].def_fullname(u), specs[0].modname(v[0]) + '.' + v[1]) for u, v in list(specs[0].moved.items())[:3]]})
    return res
