"""C10 -- generated pages are well-formed and source text can never become markup
(strict XML parse + canary/control structural differential over the output of the real driver)."""
from __future__ import annotations

import os
import re
import zlib
import shutil
import tempfile
import xml.parsers.expat as expat
from html.parser import HTMLParser
from pathlib import Path
from typing import Any, Dict, List, Optional, Tuple

from vf import core
from vf.gen import project, render

ID = 'C10'
LEVEL = 'exploration'
RULE = ('a directed canary module (unique tokens wrapped in < > & quotes, entity look-alikes, CDATA/comment delimiters, a '
        'script element) planted in every position where source text flows into a page: module/class/function/attribute/'
        'property docstrings, field bodies and field arguments (param/type/raise/return/ivar/cvar/see/unknown), string '
        'constants, bytes, dict keys, parameter defaults, string annotations, decorator arguments, base-class subscripts, '
        '__all__ entries, deprecation messages) x 5 docformats, generated projects with canaries in docstrings, and real '
        'packages; rendered by the real driver twice: hostile run and control run in which only the five HTML-significant '
        'characters of each canary are replaced by = ? % ! $. Every page must parse as XML (characters illegal in XML 1.0 '
        'set aside) and the element/attribute skeleton of every page must equal the control run\'s. Distinct: (project, '
        'docformat); non-trivial: the hostile output contains >=5 escaped canary occurrences.')
ASSUME = ['the control run differs from the hostile run only in characters that mean nothing to HTML, the markups or Python string syntax',
          'href/src values written by explicit link markup are attribute values chosen by the author (URL scheme policy is not judged)',
          'reST raw/include directives are excluded by the statement and not generated']
DECIDING = {'directed_modules_parsed': 5, 'pages_strict_parsed': 300, 'pages_skeleton_compared': 200, 'canaries_seen_escaped': 300, 'docformats': 5, 'canary_positions': 30, 'entity_lookalikes_compared': 300}
CPU_S = 1200

HOSTILE = '<zq{n} a="1" onload=\'x\'>&zq{n};&lt;&#x3c;]]>--><!--<script>zq{n}</script>'
# replacements are ASCII neighbours of the originals (so that names built from canaries sort alike) that mean
# nothing to HTML, epytext, reST, google/numpy sections, the type mini-language or Python string syntax
TRANS = {'<': '=', '>': '?', '&': '%', '"': '!', "'": '$'}


# inside type fields the quote characters belong to the type mini-language (string literals), exactly like
# '<' '>' belong to epytext's L{text<target>}: canaries placed there carry no quotes
HOSTILE_NQ = '<zq{n} a=1>&zq{n};&lt;&#x3c;]]>--><!--<script>zq{n}</script>'


def hostile(n: str, nq: bool = False) -> str:
    return (HOSTILE_NQ if nq else HOSTILE).replace('{n}', n)


# in type fields ( ) , [ ] | and quotes are delimiters of the type mini-language: the control there uses '~'
TRANS_NQ = {'<': '=', '>': '?', '&': '%'}


# inside explicit link markup (URL of a hyperlink, alt text of an image) the canary lands in an *attribute value* the
# translator writes: only the quote characters can do harm there ('<' '>' delimit the markup itself)
HOSTILE_AQ = 'zq{n}"onzq{n}="zq{n}\'zq{n}'


def hostile_aq(n: str, _nq: bool = False) -> str:
    return HOSTILE_AQ.replace('{n}', n)


def control_aq(n: str, _nq: bool = False) -> str:
    return hostile_aq(n).replace('"', '!').replace("'", '$')


# a canary that is *well-formed* markup on its own: code that re-parses source text as XML/HTML only succeeds on such text
HOSTILE_WF = '<b onclick="zq{n}()">zq{n}<script>zq{n}</script>&lt;i&gt;</b>'


def hostile_wf(n: str) -> str:
    return HOSTILE_WF.replace('{n}', n)


def control_wf(n: str) -> str:
    return ''.join(TRANS.get(c, c) for c in hostile_wf(n))


# a well-formed canary without blanks or quotes: text that is turned into an identifier (blanks become dashes) stays well-formed
HOSTILE_NS = '<b>zq{n}<script>zq{n}</script>&lt;i&gt;</b>'


def hostile_ns(n: str) -> str:
    return HOSTILE_NS.replace('{n}', n)


def control_ns(n: str) -> str:
    return ''.join(TRANS.get(c, c) for c in hostile_ns(n))


_NS_LEN = len(hostile_ns('99')) + 2

# compatibility characters that a Unicode normalisation (NFKC/NFKD) folds into the HTML metacharacters: they are ordinary text
HOSTILE_FW = '\uff1cscript\uff1ezq{n}\uff1c/script\uff1e\uff06lt;\uff02\ufe64b\ufe65'


def hostile_fw(n: str) -> str:
    return HOSTILE_FW.replace('{n}', n)


def control_fw(n: str) -> str:
    return hostile_fw(n).replace('\uff1c', '=').replace('\uff1e', '?').replace('\uff06', '%').replace('\uff02', '!').replace('\ufe64', '=').replace('\ufe65', '?')


def control(n: str, nq: bool = False) -> str:
    return ''.join((TRANS_NQ if nq else TRANS).get(c, c) for c in hostile(n, nq))


def _lit(s: str) -> str:
    """text usable inside any non-raw Python string literal"""
    return s.replace('\\', '\\\\').replace('"', '\\x22').replace("'", '\\x27')


FIELDS = {
    'epytext': dict(onesect='@@CNS97@@ x\n' + '=' * _NS_LEN + '\n\nThe only section.', sect='\u00e9 @@CNS99@@\n' + '=' * _NS_LEN + '\n\nSection text.\n\n@@CNS98@@ \u043f\n' + '-' * _NS_LEN + '\n\nSubsection text.', param='@param a: pa @@CAN17@@', typ='@type a: C{{@@CNQ18@@}}', badparam='@param @@CAN19@@: unknown param',
                    rais='@raise @@CAN20@@: exc @@CAN35@@', ret='@return: r @@CAN21@@', see='@see: @@CAN22@@', unk='@unknownfield @@CAN23@@: x',
                    ivar='@ivar iv: d @@CAN26@@', cvar='@cvar @@CAN27@@: bad name\n    @ivar @@CNS96@@: a name that is well-formed markup\n    @cvar x@@CNS95@@y: another one', rtype='@rtype: @@CNQ32@@', inline='C{{@@CAN36@@}} B{{@@CAN37@@}} U{{label<http://example.com/@@CAQ70@@>}} U{{http://example.com/@@CAQ71@@}} L{{@@CAW74@@ <canpkg.mod.f>}} L{{@@CAW75@@ <nosuchtarget>}} U{{@@CAW76@@ <http://example.com/>}}'),
    'restructuredtext': dict(onesect='@@CNS97@@ x\n' + '=' * (_NS_LEN + 6) + '\n\nThe only section.', sect='\u00e9 @@CNS99@@\n' + '=' * (_NS_LEN + 6) + '\n\nSection text.\n\n@@CNS98@@ \u043f\n' + '-' * (_NS_LEN + 6) + '\n\nSubsection text.', param=':param a: pa @@CAN17@@', typ=':type a: ``@@CNQ18@@``', badparam=':param @@CAN19@@: unknown param',
                             rais=':raise @@CAN20@@: exc @@CAN35@@', ret=':return: r @@CAN21@@', see=':see: @@CAN22@@', unk=':unknownfield @@CAN23@@: x',
                             ivar=':ivar iv: d @@CAN26@@', cvar=':cvar @@CAN27@@: bad name\n    :ivar @@CNS96@@: a name that is well-formed markup\n    :cvar x@@CNS95@@y: another one', rtype=':rtype: @@CNQ32@@', inline='``@@CAN36@@`` **@@CAN37@@** `label <http://example.com/@@CAQ70@@>`_ http://example.com/@@CAQ71@@ `label <http://example.com/@@CAQ77@@>` `label <https://example.com/x@@CAQ78@@ y>` `<ftp://example.com/@@CAQ79@@>`\n\n.. image:: http://example.com/x.png\n   :alt: alt @@CAQ72@@\n\n.. code-block:: bash\n\n   echo @@CAW90@@\n\n.. code:: json\n\n   {{"k": "@@CAW92@@"}}\n\n.. code:: python\n\n   x = "@@CAW93@@"\n\nTarget_ text.\n\n.. _Target: http://example.com/@@CAQ73@@'),
    'google': dict(onesect='@@CNS97@@ x\n' + '=' * (_NS_LEN + 6) + '\n\nThe only section.', sect='', param='Args:\n        a: pa @@CAN17@@\n        @@CAN19@@ (@@CNQ18@@): unknown param', typ='', badparam='',
                   rais='Raises:\n        @@CAN20@@: exc @@CAN35@@', ret='Returns:\n        r @@CAN21@@', see='See Also:\n        @@CAN22@@', unk='Note:\n        @@CAN23@@',
                   ivar='Attributes:\n        iv: d @@CAN26@@\n        @@CAN27@@: bad name', cvar='', rtype='', inline='``@@CAN36@@`` **@@CAN37@@** `label <http://example.com/@@CAQ70@@>`_ http://example.com/@@CAQ71@@ `label <http://example.com/@@CAQ77@@>` `label <https://example.com/x@@CAQ78@@ y>` `<ftp://example.com/@@CAQ79@@>`\n\n.. image:: http://example.com/x.png\n   :alt: alt @@CAQ72@@\n\n.. code-block:: bash\n\n   echo @@CAW90@@\n\n.. code:: json\n\n   {{"k": "@@CAW92@@"}}\n\n.. code:: python\n\n   x = "@@CAW93@@"'),
    'numpy': dict(onesect='@@CNS97@@ x\n' + '=' * (_NS_LEN + 6) + '\n\nThe only section.', sect='', param='Parameters\n    ----------\n    a : @@CNQ18@@\n        pa @@CAN17@@\n    @@CAN19@@\n        unknown param', typ='', badparam='',
                  rais='Raises\n    ------\n    @@CAN20@@\n        exc @@CAN35@@', ret='Returns\n    -------\n    @@CNQ32@@\n        r @@CAN21@@', see='See Also\n    --------\n    @@CAN22@@', unk='Notes\n    -----\n    @@CAN23@@',
                  ivar='Attributes\n    ----------\n    iv\n        d @@CAN26@@\n    @@CAN27@@\n        bad name', cvar='', rtype='', inline='``@@CAN36@@`` **@@CAN37@@** `label <http://example.com/@@CAQ70@@>`_ http://example.com/@@CAQ71@@ `label <http://example.com/@@CAQ77@@>` `label <https://example.com/x@@CAQ78@@ y>` `<ftp://example.com/@@CAQ79@@>`\n\n.. image:: http://example.com/x.png\n   :alt: alt @@CAQ72@@\n\n.. code-block:: bash\n\n   echo @@CAW90@@\n\n.. code:: json\n\n   {{"k": "@@CAW92@@"}}\n\n.. code:: python\n\n   x = "@@CAW93@@"'),
    'plaintext': dict(onesect='@@CNS97@@', sect='@@CNS99@@', param='@param a: pa @@CAN17@@', typ='', badparam='', rais='@@CAN20@@ @@CAN35@@', ret='@@CAN21@@', see='@@CAN22@@', unk='@@CAN23@@', ivar='@@CAN26@@',
                      cvar='@@CAN27@@', rtype='@@CNQ32@@', inline='@@CAN36@@ @@CAN37@@'),
}

DIRECTED = '''"""Module doc @@CAN1@@ and {inline}.

Second paragraph @@CAN38@@ and @@CFW60@@, control characters \\x1b[0m \\x01 \\x08 \\x1f too.

{sect}
"""
__all__ = ['f', 'C', '@@CAN3@@']
from twisted.python.deprecate import deprecated
from incremental import Version
V = '@@CAN4@@'
"""attr doc @@CAN5@@"""
FW = ['@@CFW61@@', b'x']
"""attr doc @@CFW62@@"""
def fw(a='@@CFW63@@', b: '@@CFW64@@' = 1):
    """Function doc @@CFW65@@."""
def onesect():
    """{onesect}
    """
class OneSect:
    """{onesect}
    """
NB1 = '\xa0@@CAW80@@'
NB2 = ['\xa0', '@@CAW81@@', '@@CAN82@@\xa0']
WF = '@@CAW83@@'
def wfbytes(a=b'@@CAW91@@', b=b'\\xa0@@CAW94@@', c=(b'@@CAW95@@', 1), *, d: b'@@CAW96@@' = 1.5) -> b'@@CAW97@@':
    """doc"""
WFB = b'@@CAW98@@'
@deco('\xa0@@CAW84@@')
def nbdeco(a='\xa0@@CAW85@@', b: '\xa0@@CAW86@@' = None):
    """doc"""
class NBBase:
    pass
class NBC(NBBase['\xa0@@CAW87@@']):
    x: '\xa0@@CAW88@@' = '\xa0@@CAW89@@'
CONST = {{'@@CAN6@@': ['@@CAN7@@', b'@@CAN8@@'], 'k': ('@@CAN9@@', 1)}}
RE = __import__('re').compile('(?P<n>@@CAN39@@)+')
def deco(*a, **k):
    return lambda f: f
@deco('@@CAN10@@', key='@@CAN11@@')
def f(a='@@CAN12@@', b: '@@CAN13@@' = None, *args: 'List[@@CAN14@@]', **kw) -> '@@CAN15@@':
    """Doc @@CAN16@@.

    {param}
    {typ}
    {badparam}
    {rais}
    {ret}
    {see}
    {unk}
    """
@deprecated(Version('@@CAN33@@', 1, 2, 3), replacement='@@CAN34@@')
def old():
    """Old @@CAN40@@."""
@deprecated(Version('canpkg', 1, 2, 3), replacement='x\\r\\r.. raw:: html\\r\\r   @@CAN60@@\\r\\ry')
def old_cr():
    pass
@deprecated(Version('canpkg', 1, 2, 3), replacement='x\\x1c\\x1c.. raw:: html\\x1c\\x1c   @@CAN61@@\\x1c\\x1cy')
def old_fs():
    pass
@deprecated(Version('canpkg', 1, 2, 3), replacement='x\\x85\\x85.. raw:: html\\x85\\x85   @@CAN62@@\\x85\\x85y')
def old_nel():
    pass
@deprecated(Version('canpkg', 1, 2, 3), replacement='x\\u2028\\u2028.. raw:: html\\u2028\\u2028   @@CAN63@@\\u2028\\u2028y')
def old_ls():
    pass
@deprecated(Version('canpkg', 1, 2, 3), replacement='x\\n\\n.. raw:: html\\n\\n   @@CAN64@@\\n\\ny')
def old_lf():
    pass
@deprecated(Version('canpkg', 1, 2, 3), replacement='x\\x0c\\x0c.. raw:: html\\x0c\\x0c   @@CAN65@@\\x0b\\x0by`_ `a <javascript:x>`_ |sub| [1]_')
def old_ff():
    pass
class Base:
    pass
class C(Base['@@CAN24@@'], metaclass=type):
    """Class doc @@CAN25@@.

    {ivar}
    {cvar}
    """
    x: '@@CAN28@@' = '@@CAN29@@'
    def __init__(self, q='@@CAN41@@'):
        self.iv = '@@CAN42@@'
    @property
    def p(self) -> '@@CAN30@@':
        """prop @@CAN31@@

        {rtype}
        """
class D(C):
    def __init__(self, q="@@CAN43@@", *, r=b'@@CAN44@@'):
        """init @@CAN45@@"""
'''


def cases(tier: str, seed: int) -> List[Dict[str, Any]]:
    out: List[Dict[str, Any]] = []
    for fmt in FIELDS:
        for theme in (['classic'] if tier == 'quick' else ['classic', 'base', 'readthedocs']):
            out.append({'part': 'D', 'docformat': fmt, 'theme': theme})
    n = 60 if tier == 'quick' else 1500
    for k in range(0, n, 3):
        out.append({'part': 'G', 'seed': seed, 'k': k, 'n': 3})
    from vf.gen import corpus
    r = core.rng(seed, 'C10', 'corpus')
    for p in corpus.pick(r, 4 if tier == 'quick' else 80, max_bytes=600_000):
        out.append({'part': 'P', 'path': p})
    return out


# ---- oracles ------------------------------------------------------------------------------------------
ILLEGAL_XML = re.compile('[\x00-\x08\x0b\x0c\x0e-\x1f￾￿]')


def strict_parse(data: bytes) -> Optional[str]:
    try:
        text = data.decode('utf-8')
    except UnicodeDecodeError as e:
        return f'not UTF-8: {e}'
    text = ILLEGAL_XML.sub('', text)
    p = expat.ParserCreate()
    try:
        p.Parse(text.encode('utf-8', 'surrogatepass'), True)
    except expat.ExpatError as e:
        line = text.splitlines()[e.lineno - 1] if 0 < e.lineno <= len(text.splitlines()) else ''
        return f'{e}: ...{line[max(0, e.offset - 80):e.offset + 80]}...'
    return None


class _Skel(HTMLParser):
    def __init__(self) -> None:
        super().__init__(convert_charrefs=True)
        self.ev: List[str] = []

    def handle_starttag(self, tag: str, attrs: List[Tuple[str, Optional[str]]]) -> None:
        self.ev.append('<' + tag + ' ' + ','.join(sorted(k for k, _ in attrs)) + '>')

    def handle_startendtag(self, tag: str, attrs: List[Tuple[str, Optional[str]]]) -> None:
        self.ev.append('<' + tag + ' ' + ','.join(sorted(k for k, _ in attrs)) + '/>')

    def handle_endtag(self, tag: str) -> None:
        self.ev.append('</' + tag + '>')

    def handle_comment(self, data: str) -> None:
        self.ev.append('<!--comment-->')

    def handle_decl(self, decl: str) -> None:
        self.ev.append('<!decl>')

    def handle_pi(self, data: str) -> None:
        self.ev.append('<?pi>')

    def unknown_decl(self, data: str) -> None:
        self.ev.append('<![unknown-decl]>')


def skeleton(text: str) -> List[str]:
    s = _Skel()
    s.feed(text)
    s.close()
    ev = s.ev
    # presentation-only wrappers whose placement depends on the shape of words, not on markup
    # (a span carrying only a class attribute cannot do anything: the colouriser's line-wrap marker and
    # docutils' span.pre inside inline literals are such spans, and where a line wraps depends on the escaped
    # length of the text; <wbr> likewise). Any other element, or a span with any other attribute, stays.
    out = []
    depth_span: List[bool] = []
    for e in ev:
        if e.startswith('<wbr') or e == '</wbr>':
            continue
        if e.startswith('<span '):
            pure = e in ('<span class>', '<span >')
            depth_span.append(pure)
            if pure:
                continue
        elif e == '</span>':
            if depth_span and depth_span.pop():
                continue
        out.append(e)
    return out


def _visible(page: str) -> str:
    import html as _html
    return _html.unescape(re.sub(r'<[^>]*>', '', page))


def compare_outputs(res: core.Res, label: str, hdir: str, cdir: str, w: Dict[str, Any]) -> None:
    hfiles = sorted(f for f in os.listdir(hdir) if f.endswith('.html'))
    cfiles = sorted(f for f in os.listdir(cdir) if f.endswith('.html'))
    if hfiles != cfiles:
        res.v('C10:page-set-differs', f'{label}: hostile and control runs wrote different pages: {sorted(set(hfiles) ^ set(cfiles))[:5]}', **w)
    seen = 0
    for f in hfiles:
        data = open(os.path.join(hdir, f), 'rb').read()
        res.c('pages_strict_parsed')
        err = strict_parse(data)
        if err:
            res.v('C10:not-well-formed', f'{label}: {f} is not well-formed: {err}'[:700], page=f, **w)
        text = data.decode('utf-8', 'replace')
        seen += len(re.findall(r'&lt;zq\d+ a=', text))
        if re.search(r'<zq\d+', text) or re.search(r'<script>zq', text):
            res.v('C10:canary-became-element', f'{label}: {f}: a canary appears as raw markup', page=f, **w)
        if f in cfiles:
            res.c('pages_skeleton_compared')
            hs = skeleton(text)
            ctext = open(os.path.join(cdir, f), 'rb').read().decode('utf-8', 'replace')
            cs = skeleton(ctext)
            # the entity look-alikes of each canary are text: wherever the control page shows its '%zqN;%lt;%#x3c;', the hostile page
            # must show '&zqN;&lt;&#x3c;' (read once as HTML), the same number of times
            hvis, cvis = _visible(text), _visible(ctext)
            for n_ in sorted(set(re.findall(r'%zq(\d+);%lt;%#x3c;', cvis))):
                res.c('entity_lookalikes_compared')
                hc, cc = hvis.count(f'&zq{n_};&lt;&#x3c;'), cvis.count(f'%zq{n_};%lt;%#x3c;')
                if hc != cc:
                    res.v('C10:entity-lookalike-not-shown-as-text', f'{label}: {f}: canary {n_}: the control page shows its entity look-alikes {cc} times, the hostile page shows '
                          f'"&zq{n_};&lt;&#x3c;" {hc} times (the source text is displayed as other characters)', page=f, **w)
            if hs != cs:
                i = next((j for j in range(min(len(hs), len(cs))) if hs[j] != cs[j]), min(len(hs), len(cs)))
                res.v('C10:skeleton-differs', f'{label}: {f}: element/attribute structure differs from the control run at event {i}: hostile {hs[i:i + 3]} vs control {cs[i:i + 3]} (context {hs[max(0, i - 3):i]})'[:800],
                      page=f, **w)
    res.c('canaries_seen_escaped', seen)
    if seen >= 5:
        res.distinct(label)


def _render_pair(res: core.Res, label: str, sources: Dict[str, Tuple[bool, str]], args: List[str]) -> None:
    base = Path(tempfile.mkdtemp(prefix='vf10-'))
    try:
        outs = {}
        for variant, fn in (('hostile', hostile), ('control', control)):
            src = base / variant / 'src'
            roots = []
            for name, (is_pkg, text) in sources.items():
                text = re.sub(r'@@CAN(\d+)@@', lambda m: _lit(fn(m.group(1))), text)
                text = re.sub(r'@@CNQ(\d+)@@', lambda m: _lit(fn(m.group(1), True)), text)
                text = re.sub(r'@@CAQ(\d+)@@', lambda m: _lit((hostile_aq if variant == 'hostile' else control_aq)(m.group(1))), text)
                text = re.sub(r'@@CAW(\d+)@@', lambda m: _lit((hostile_wf if variant == 'hostile' else control_wf)(m.group(1))), text)
                text = re.sub(r'@@CFW(\d+)@@', lambda m: _lit((hostile_fw if variant == 'hostile' else control_fw)(m.group(1))), text)
                text = re.sub(r'@@CNS(\d+)@@', lambda m: _lit((hostile_ns if variant == 'hostile' else control_ns)(m.group(1))), text)
                parts = name.split('.')
                if is_pkg:
                    d = src.joinpath(*parts)
                    d.mkdir(parents=True, exist_ok=True)
                    (d / '__init__.py').write_text(text, encoding='utf-8')
                    if len(parts) == 1:
                        roots.append(d)
                else:
                    d = src.joinpath(*parts[:-1])
                    d.mkdir(parents=True, exist_ok=True)
                    (d / (parts[-1] + '.py')).write_text(text, encoding='utf-8')
                    if len(parts) == 1:
                        roots.append(d / (parts[-1] + '.py'))
            out = str(base / variant / 'out')
            try:
                if zlib.crc32(label.encode()) % 3 == 0:
                    # the output directory already holds the pages of a previous run (the same sources under a longer project name, so
                    # that every page written now is shorter than the file it replaces)
                    try:
                        render.render(roots, out, args + ['--project-name=' + 'the-previous-run-' * 6])
                    except BaseException as e0:  # noqa: BLE001
                        if isinstance(e0, (KeyboardInterrupt, core.CpuTimeout)):
                            raise
                    res.c('renders_over_a_previous_run')
                render.render(roots, out, args)
            except BaseException as e:  # noqa: BLE001
                if isinstance(e, (KeyboardInterrupt, core.CpuTimeout)):
                    raise
                res.v(f'C10:render-raises:{type(e).__name__}', f'{label}: {variant} run raised {e!r}'[:500], variant=variant, args=args)
                return
            outs[variant] = out
        compare_outputs(res, label, outs['hostile'], outs['control'], {'project': label, 'args': args,
                                                                        'sources': {k: v[1][:4000] for k, v in list(sources.items())[:6]}})
        res.c('evaluations')
    finally:
        shutil.rmtree(base, ignore_errors=True)


def run_case(case: Dict[str, Any]) -> core.Res:
    res = core.Res()
    if case['part'] == 'D':
        fmt = case['docformat']
        # (the values are plain text, not templates: their doubled braces are un-doubled here)
        text = DIRECTED.format(**{k: v.replace('{{', '{').replace('}}', '}') for k, v in FIELDS[fmt].items()})
        res.c('canary_positions', len(set(re.findall(r'@@C(?:AN|NQ|AQ|AW)(\d+)@@', text))))
        # the harness's own module must be valid Python in both variants, otherwise nothing of it is documented and the run proves nothing
        import ast as _ast
        for fn_ in (hostile, control):
            probe = re.sub(r'@@C(?:AN|NQ|AQ|AW)(\d+)@@', lambda m: _lit(fn_(m.group(1))), text)
            _ast.parse(probe)
        res.c('directed_modules_parsed')
        res.setadd('docformats', fmt)
        sources = {'canpkg': (True, '"""Package @@CAN50@@."""\nfrom .mod import C as Moved\n__all__ = ["Moved"]\n'), 'canpkg.mod': (False, text)}
        _render_pair(res, f'directed/{fmt}/{case["theme"]}', sources, [f'--docformat={fmt}', f'--theme={case["theme"]}', '--process-types'])
        res.sample({'directed': fmt, 'canary': hostile('17'), 'control': control('17')})
    elif case['part'] == 'G':
        for j in range(case['n']):
            feat = project.Features.rendering()
            feat.canary = True
            spec = project.generate(core.rng('C10', case['seed'], case['k'] + j), feat)
            label = f"C10:{case['seed']}:{case['k'] + j}"
            _render_pair(res, label, project.sources(spec, seed=('C10', case['seed'], case['k'], j)), [f'--privacy={p}' for p in spec.privacy])
        res.sample({'generated': f"C10:{case['seed']}:{case['k']}"})
    else:
        out = tempfile.mkdtemp(prefix='vf10p-')
        try:
            try:
                render.render([Path(case['path'])], out, [])
            except BaseException as e:  # noqa: BLE001
                if isinstance(e, (KeyboardInterrupt, core.CpuTimeout)):
                    raise
                res.c('render_raised')       # C01's business
                return res
            for f in sorted(os.listdir(out)):
                if f.endswith('.html'):
                    res.c('pages_strict_parsed')
                    err = strict_parse(open(os.path.join(out, f), 'rb').read())
                    if err:
                        res.v('C10:not-well-formed', f'{Path(case["path"]).name}: {f} is not well-formed: {err}'[:700], page=f, path=case['path'])
            res.c('evaluations')
            res.distinct('P:' + case['path'])
        finally:
            shutil.rmtree(out, ignore_errors=True)
        res.sample({'package': case['path']})
    return res


def finish(agg: Dict[str, Any], tier: str, seed: int) -> None:
    agg['cnt']['docformats'] = len(agg['sets'].get('docformats', ()))
