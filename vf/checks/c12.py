"""C12 -- hidden objects leave no trace; private objects are always marked private (closed-world search of the output)."""
from __future__ import annotations

from pathlib import Path
from typing import Any, Dict, List, Set
from urllib.parse import unquote

from vf import core
from vf.checks import _site
from vf.mon import registry

ID = 'C12'
LEVEL = 'exploration'
RULE = ('generated projects x generated --privacy rule lists (exact names and patterns, all three levels, two rule lists per '
        'project): hidden classes that are bases of visible classes, hidden modules that are imported from, hidden members '
        'that are overridden or cross-referenced, hidden containers with visible-by-rule children, private objects in every '
        'listing; real driver, full output crawled, plus one partial build per project (--html-subject naming objects inside and outside hidden containers). For every hidden object (unique name): no file, no anchor, no link '
        'target, no listing entry, no all-documents record, no search reference, no inventory line. For every private object: '
        'every listing entry (child table row, member detail block, sidebar item, index item, all-documents record) carries '
        'the private marker. Distinct: (project, rule list); non-trivial: at least one hidden and one private object.')
ASSUME = ['a plain textual mention of a hidden name in source-derived text is not a trace; links, anchors, entries, records and files are',
          'Module.privacyClass forces __main__ to PRIVATE by design']
DECIDING = {'privacy_vs_rule_list': 3000, 'hidden_objects_checked': 300, 'private_entries_checked': 2000, 'links_scanned': 20000, 'rule_lists': 80, 'hidden_link_targets_checked': 300}
CPU_S = 1200
PER = 4


def cases(tier: str, seed: int) -> List[Dict[str, Any]]:
    out: List[Dict[str, Any]] = []
    n = 120 if tier == 'quick' else 2500
    for k in range(0, n, PER):
        out.append({'part': 'G', 'seed': seed, 'k': k, 'n': PER, 'variants': 2 if tier == 'quick' else 4, 'subjects': True})
    out.append({'part': 'P', 'path': '/repo/pydoctor/epydoc' if False else str(Path(core.repo_dir()) / 'pydoctor' / 'epydoc'),
                'privacy': ['HIDDEN:epydoc.markup._types', 'HIDDEN:epydoc.markup.ParsedDocstring', 'PRIVATE:epydoc.doctest', 'HIDDEN:**.to_stan']})
    return out


def worker_init() -> None:
    from vf.mon import msgs
    msgs.install()


def judge(res: core.Res, run: _site.Run, label: str, w: Dict[str, Any]) -> None:
    from pydoctor import model
    out = run.output
    system = run.system
    # what the rule list says, read with the manual's rules (vf/ref/glob_ref.py), not with the model's own answer
    from vf.ref import glob_ref
    rules = []
    for a in w.get('args', []):
        if isinstance(a, str) and a.startswith('--privacy='):
            lvl, _, pat = a[len('--privacy='):].partition(':')
            rules.append((lvl.strip().upper(), pat))
    for o in system.allobjects.values():
        if ' ' in o.fullName() or (isinstance(o, model.Module) and o.name == '__main__'):
            continue
        res.c('privacy_vs_rule_list')
        exp = glob_ref.ref_privacy(o.fullName(), o.name, rules)
        if (exp == 'HIDDEN') != (o.privacyClass is model.PrivacyClass.HIDDEN) or (exp == 'PRIVATE') != (o.privacyClass is model.PrivacyClass.PRIVATE):
            res.v('C12:privacy-differs-from-rule-list', f'{label}: {o.fullName()} is {o.privacyClass.name}, the rule list {[f"{a}:{b}" for a, b in rules]} says {exp}', obj=o.fullName(), **w)
    # "hidden" reaches down: an object below a hidden module, package or class (a root included) is hidden with it
    ref_hidden = set()
    for o in system.allobjects.values():
        chain, p_ = [], o
        while p_ is not None:
            chain.append(p_)
            p_ = p_.parent
        # (a module named __main__ has a privacy of its own, whatever the rules say: same exemption as above)
        if any(' ' not in c.fullName() and not (isinstance(c, model.Module) and c.name == '__main__') and glob_ref.ref_privacy(c.fullName(), c.name, rules) == 'HIDDEN' for c in chain):
            ref_hidden.add(id(o))
            res.c('visibility_vs_rule_list')
            if o.isVisible:
                res.v('C12:visible-although-hidden-by-the-rules', f'{label}: {o.fullName()} counts as visible although the rule list {[f"{a}:{b}" for a, b in rules]} hides it or one of its containers', obj=o.fullName(), **w)
    hidden = [o for o in system.allobjects.values() if not o.isVisible or id(o) in ref_hidden]
    private = [o for o in system.allobjects.values() if o.isVisible and o.privacyClass is model.PrivacyClass.PRIVATE]
    visible_names = {o.fullName() for o in system.allobjects.values() if o.isVisible}
    docs = {d['id']: d for d in out.all_documents()}
    refs = out.search_refs()
    inv = {n for n, _, _ in out.inventory()}
    # resolved link targets of the whole output
    targets: Dict[str, List[str]] = {}
    nlinks = 0
    for pname, page in out.pages.items():
        for href, node in page.links:
            if out.is_internal(href):
                nlinks += 1
                t, frag = out.resolve(pname, href)
                targets.setdefault(t + ('#' + frag if frag else ''), []).append(pname)
    res.c('links_scanned', nlinks)
    entries = list(out.listing_entries())
    by_name: Dict[str, List[Any]] = {}
    for e in entries:
        by_name.setdefault(e[2], []).append(e)
    for h in hidden:
        if registry.is_superseded(h) or any(registry.is_superseded(a) for a in registry._ancestors(h)):
            continue
        fn = h.fullName()
        if fn in visible_names:
            continue
        res.c('hidden_objects_checked')
        own_page = isinstance(h, (model.Module, model.Class))
        url = unquote(h.url)
        if own_page and url in out.files:
            res.v('C12:hidden-has-page', f'{label}: hidden {h!r} has a page {url!r}', obj=fn, **w)
        if not own_page and h.parent is not None and h.parent.isVisible:
            ppage = unquote(h.parent.url)
            if ppage in out.pages:
                for a in (h.name, fn):
                    if a in out.pages[ppage].anchors and not any(o.isVisible and (o.name == a or o.fullName() == a) for o in h.parent.contents.values()):
                        res.v('C12:hidden-has-anchor', f'{label}: hidden {h!r} has an anchor {a!r} on {ppage!r}', obj=fn, **w)
        res.c('hidden_link_targets_checked')
        hits = targets.get(url, [])            # (for a member, `url` is its parent's page plus '#' and its short name)
        if not own_page:
            hits = hits + targets.get(unquote(h.parent.url) + '#' + fn, []) if h.parent is not None else hits
            # a hidden member whose anchor is also that of a visible namesake on the same page (a later definition) is no trace
            if any(o is not h and o.isVisible and unquote(o.url) == url for o in system.allobjects.values()):
                hits = []
        if hits and not _shared_url(system, h):
            res.v('C12:link-to-hidden-object', f'{label}: hidden {h!r} is the target of links on {sorted(set(hits))[:4]}', obj=fn, pages=sorted(set(hits))[:10], **w)
        for e in by_name.get('name:' + fn, []):
            res.v(f'C12:hidden-listed:{e[1].split(":")[0]}', f'{label}: hidden {h!r} has a {e[1]} entry on {e[0]}', obj=fn, page=e[0], **w)
        # listing items that carry no link show the bare name: on the page of the class the hidden member belongs to, or of a class
        # that inherits it, such an item is a row for the hidden object unless a visible member of that name exists there
        if not own_page and isinstance(h.parent, model.Class):
            for e in by_name.get('text:' + h.name, []):
                pobjs = [o for o in system.allobjects.values() if isinstance(o, model.Class) and unquote(o.url) == e[0]]
                for c in pobjs:
                    if h.parent in c.mro(False, False) and not any(getattr(b.contents.get(h.name), 'isVisible', False) for b in c.mro(False, False)):
                        res.v(f'C12:hidden-listed:{e[1].split(":")[0]}-unlinked', f'{label}: hidden {h!r} has a {e[1]} item (its bare name, no link) on {e[0]}', obj=fn, page=e[0], **w)
        if fn in docs:
            res.v('C12:hidden-in-all-documents', f'{label}: hidden {h!r} has a record in all-documents.html', obj=fn, **w)
        for fname, rs in refs.items():
            if fn in rs:
                res.v('C12:hidden-in-search-index', f'{label}: hidden {h!r} is referenced by {fname}', obj=fn, **w)
        if fn in inv:
            res.v('C12:hidden-in-inventory', f'{label}: hidden {h!r} has a line in objects.inv', obj=fn, **w)
    for p in private:
        if registry.is_superseded(p):
            continue
        fn = p.fullName()
        url = unquote(p.url)
        own = by_name.get('name:' + fn, []) + by_name.get('url:' + url, [])
        for e in own:
            # the statement names member tables, member details, sidebar, module index and search documents;
            # other index pages (class/name/undocumented summaries) are counted but not judged
            if e[1].startswith('index:') and e[1] != 'index:moduleIndex.html':
                res.c('other_index_entries_marked' if e[3] else 'other_index_entries_unmarked')
                continue
            res.c('private_entries_checked')
            if not e[3]:
                res.v(f'C12:private-unmarked:{e[1].split(":")[0]}', f'{label}: private {p!r} is listed without the private marker ({e[1]} on {e[0]})', obj=fn, page=e[0], **w)
        if fn in docs:
            res.c('private_entries_checked')
            if docs[fn].get('privacy') != 'PRIVATE':
                res.v('C12:private-unmarked:all-documents', f'{label}: private {p!r} has privacy {docs[fn].get("privacy")!r} in all-documents.html', obj=fn, **w)
    # and nothing public is marked private
    for e in entries:
        if e[3] and e[2].startswith('name:'):
            o = system.allobjects.get(e[2][5:])
            if o is not None and o.privacyClass is model.PrivacyClass.PUBLIC and e[1] != 'member-detail':
                res.c('public_marked_private')


def _shared_url(system: Any, h: Any) -> bool:
    """another, visible object legitimately lives at the same address (e.g. the later definition of a duplicate)"""
    u = h.url
    if any(o is not h and o.isVisible and o.url == u for o in system.allobjects.values()):
        return True
    # a module displaced from the registry by an object re-exported under its name (known C02 finding) still owns that address
    # for its remaining members
    for o in system.allobjects.values():
        for a in registry._ancestors(o):
            if a is not h and a.isVisible and a.url == u and system.allobjects.get(a.fullName()) is not a:
                return True
    return False


def run_case(case: Dict[str, Any]) -> core.Res:
    res = core.Res()
    if case['part'] == 'P':
        args = [f'--privacy={p}' for p in case['privacy']]
        run = _site.Run([Path(case['path'])], args)
        try:
            if run.error:
                res.c('render_raised')
            else:
                judge(res, run, 'epydoc', {'path': case['path'], 'args': args})
                res.c('evaluations')
                res.distinct('P:epydoc')
                res.c('rule_lists')
        finally:
            run.close()
        return res
    for label, spec, run, args, sources in _site.generated_runs(case, 'C12'):
        w = {'project': label, 'args': args, 'sources': sources}
        if run.error:
            res.v(f'C12:render-raises:{run.error.split(":")[0]}', f'{label}: rendering raised {run.error[:300]}', **w)
            continue
        n0 = (res.cnt.get('hidden_objects_checked', 0), res.cnt.get('private_entries_checked', 0))
        judge(res, run, label, w)
        res.c('evaluations')
        res.c('rule_lists')
        if res.cnt.get('hidden_objects_checked', 0) > n0[0] and res.cnt.get('private_entries_checked', 0) > n0[1]:
            res.distinct(label)
        res.sample({'project': label, 'privacy': [a for a in args if a.startswith('--privacy')]})
    return res
