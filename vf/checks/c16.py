"""C16 -- warnings point at the right place and every reported problem is counted
(generator ground truth for lines, M-MSG shadow counter, iff-relations on the exit status of the real driver.main)."""
from __future__ import annotations

import contextlib
import io
import os
import re
import shutil
import tempfile
from typing import Any, Dict, List, Optional, Tuple

from vf import core

ID = 'C16'
LEVEL = 'exploration'
RULE = ('generated modules with problems planted at known physical lines: unresolvable cross-reference, markup error, unknown '
        'field, documented parameter that does not exist; in module, class, function, method and attribute docstrings; x 4 '
        'docformats x layouts (text on the opening line or below, 0-3 leading blank lines incl. whitespace-only ones, indentation '
        'depth, raw strings, decorators above, problems in first/middle/last block, in list items, on the second line of a field '
        'body) x vertical offsets k in {0,1,7}; run through driver.main with and without -W. Each planted problem must be '
        'reported with the file path and a line in its admissible set (epytext/reST: first line of its block .. line of the token; '
        'google/numpy: any line of that docstring); shifting by k lines shifts the report by k; System.violations equals the number '
        'of counted messages; exit status 3 iff -W and violations>0, else 2 iff parse_errors non-empty else 0. Distinct: (module, '
        'docformat, layout); non-trivial: >=2 planted problems.')
ASSUME = ['docstrings with line continuations or \\n escapes are excluded (documented limitation of extract_docstring_linenum)',
          'a fatal epytext error legitimately suppresses the other warnings of that docstring']
DECIDING = {'planted_problems': 1500, 'problems_located': 1200, 'shift_relations': 300, 'runs': 400, 'count_checks': 400, 'exit_checks': 400}
CPU_S = 1200
FORMATS = ['epytext', 'restructuredtext', 'google', 'numpy']
PER = 4


def cases(tier: str, seed: int) -> List[Dict[str, Any]]:
    n = 600 if tier == 'quick' else 15000
    return [{'seed': seed, 'k': k, 'n': PER} for k in range(0, n, PER)]


_captured: List[Any] = []


def worker_init() -> None:
    from vf.mon import msgs
    msgs.install()
    from pydoctor import driver
    orig = driver.get_system

    def get_system(options: Any) -> Any:
        s = orig(options)
        _captured.append(s)
        return s
    driver.get_system = get_system  # type: ignore[assignment]


class Plant:
    def __init__(self, kind: str, token: str, block_rel: int, tok_rel: int) -> None:
        self.kind, self.token, self.block_rel, self.tok_rel = kind, token, block_rel, tok_rel
        self.block_line = self.tok_line = 0
        self.doc_lines: Tuple[int, int] = (0, 0)
        self.where = ''


def _docstring(r: Any, fmt: str, n0: int, params: List[str], allow_param: bool, cls: bool = False, top: bool = False) -> Tuple[List[str], List[Plant]]:
    """lines of a docstring (relative to its first text line) with planted problems"""
    lines: List[str] = []
    plants: List[Plant] = []
    n = [n0]

    def tok() -> str:
        n[0] += 1
        return f'q{n[0]}'
    # (a quarter of the unresolvable targets are dotted names under a root that is not documented)
    tgt = lambda t: f'nosuchlib.helpers.T_{t}' if int(t[1:]) % 4 == 0 else f'nosuch_{t}'  # noqa: E731
    xref = (lambda t: f'L{{{tgt(t)}}}') if fmt == 'epytext' else (lambda t: f'`{tgt(t)}`')
    # (epytext: a word may hold a character that some line-splitting routines take for a line end -- the
    # information separators, NEL, LINE/PARAGRAPH SEPARATOR --; the lines of a docstring are those of its source file)
    odd = (lambda: r.choice(['\x1c', '\x1d', '\x1e', '\x85', '\u2028', '\u2029']) if fmt == 'epytext' and r.random() < .04 else '')  # noqa: E731
    words = lambda k: ' '.join(f'wo{odd()}rd{r.randrange(1000)}' for _ in range(k))  # noqa: E731
    nblocks = r.randint(1, 4)
    for b in range(nblocks):
        if lines:
            lines.append('')
        kind = r.choice(['para', 'para', 'list'] if fmt in ('epytext', 'restructuredtext') else ['para'])
        nl = r.randint(1, 3)
        first = len(lines)
        repeat: List[str] = []
        for j in range(nl):
            text = words(r.randint(1, 4))
            if repeat and r.random() < .5:
                # the same unresolvable target once more, further down in the same block: it is still the first
                # occurrence (or the block's first line) that locates the problem
                text += ' ' + xref(repeat[0]) + ' ' + words(1)
            if r.random() < .35:
                t = tok()
                text += ' ' + xref(t) + ' ' + words(1)
                plants.append(Plant('xref', t, first, len(lines)))
                repeat.append(t)
            if kind == 'list':
                pad = ('  ' if fmt == 'epytext' else '')
                text = (pad + '- ' + text) if j == 0 else (pad + '  ' + text)
            lines.append(text)
    # fields
    if fmt in ('epytext', 'restructuredtext'):
        mk = (lambda tag, arg: f'@{tag} {arg}:' if arg else f'@{tag}:') if fmt == 'epytext' else (lambda tag, arg: f':{tag} {arg}:' if arg else f':{tag}:')
        fl: List[str] = []
        fplants: List[Plant] = []
        for _ in range(r.randint(0, 3)):
            k = r.random()
            first = len(fl)
            t = tok()
            below = fmt == 'restructuredtext' and r.random() < .4        # reST: the field body may start on the line under the marker
            if k < .3:
                if below:
                    fl += [mk('nosuchfield' + t, None), f'    {words(2)}', f'    {words(1)}']
                else:
                    fl.append(f"{mk('nosuchfield' + t, None)} {words(2)}")
                fplants.append(Plant('unknown-field', 'nosuchfield' + t, first, first))
            elif k < .55 and allow_param:
                if below:
                    fl += [mk('param', 'nosuchparam' + t), f'    {words(2)}']
                else:
                    fl.append(f"{mk('param', 'nosuchparam' + t)} {words(2)}")
                fplants.append(Plant('bad-param', 'nosuchparam' + t, first, first))
            elif k < .8 and params and allow_param:
                fl.append(f"{mk('param', r.choice(params))} {words(2)}")
                fl.append(f'    {words(1)} {xref(t)}')
                fplants.append(Plant('xref', t, first, first + 1))
            elif k < .9 and cls:
                fl.append(f"{mk('ivar', 'iv' + t)} {words(1)} {xref(t)}")
                fplants.append(Plant('xref', t, first, first))
                if r.random() < .5:
                    # the type of the documented variable, given in the owner's docstring too, names something that does not exist
                    t2 = tok()
                    fl.append(f"{mk('type', 'iv' + t)} {xref(t2)}")
                    fplants.append(Plant('xref', t2, first + 1, first + 1))
            elif k < .93 and fmt == 'restructuredtext' and allow_param and params and not any(ln.startswith(':Parameters:') for ln in fl):
                # a well-formed consolidated field (bullet list, one item per parameter) with an unresolvable reference in the first
                # paragraph of an item and in a continuation line: the item is the block that contains the problem
                fl.append(':Parameters:')
                item_first = len(fl)
                pn = r.choice(params)
                fl.append(f'    - `{pn}`: {words(2)} {xref(t)} {words(1)}')
                fplants.append(Plant('xref', t, first, item_first))
                if r.random() < .5:
                    t2 = tok()
                    fl.append(f'      {words(1)} {xref(t2)}')
                    fplants.append(Plant('xref', t2, first, item_first + 1))
            elif k < .95 and fmt == 'restructuredtext' and top and not any(ln.startswith(':Parameters:') for ln in fl):
                # a consolidated field whose body is not a list
                fl.append(':Parameters:')
                fl.append(f'    {words(2)} cons{t}')
                fplants.append(Plant('consolidated', 'Parameters', first, first))
            else:
                fl.append(f"{mk('note', None)} {words(2)}")
                if r.random() < .5:
                    fl.append(f'    {xref(t)} {words(1)}')
                    fplants.append(Plant('xref', t, first, first + 1))
        if fl:
            lines.append('')
            base = len(lines)
            for p in fplants:
                p.block_rel += base
                p.tok_rel += base
            lines += fl
            plants += fplants
    elif allow_param and r.random() < .6:
        t = tok()
        lines.append('')
        if fmt == 'google':
            lines += ['Args:', f'    nosuchparam{t}: {words(2)}']
        else:
            lines += ['Parameters', '----------', f'nosuchparam{t}', f'    {words(2)}']
        plants.append(Plant('bad-param', 'nosuchparam' + t, 0, len(lines) - 1))
        if r.random() < .4:
            t = tok()
            lines.append('')
            if fmt == 'google':
                lines += ['Note:', f'    {words(1)} *unclosed{t} {words(1)}']
            else:
                lines += ['Note', '----', f'{words(1)} *unclosed{t} {words(1)}']
            plants.append(Plant('markup-nonfatal', 'unclosed' + t, 0, len(lines) - 1))
    elif allow_param and params and r.random() < .5:
        # a type specification the type mini-language cannot read (google/numpy process types by definition)
        t = tok()
        lines.append('')
        bad = r.choice(['list[', '{x', 'dict[str, (int', "{'a', 'b'"])
        order = list(params)
        r.shuffle(order)
        pn, good = order[0], order[1:] if r.random() < .6 else []
        # well-typed parameters first (each becomes two fields once converted), the unreadable type last
        if fmt == 'google':
            lines += ['Args:'] + [f'    {g} (int): {words(2)}' for g in good] + [f'    {pn} ({bad}): {words(2)}']
        else:
            lines += ['Parameters', '----------'] + [ln for g in good for ln in (f'{g} : int', f'    {words(2)}')] + [f'{pn} : {bad}', f'    {words(2)}']
        plants.append(Plant('type-error', t, 0, len(lines) - (1 if fmt == 'google' else 2)))
    elif cls and r.random() < .5:
        t = tok()
        lines.append('')
        if fmt == 'google':
            lines += ['Attributes:', f'    iv{t}: {words(1)} {xref(t)}']
        else:
            lines += ['Attributes', '----------', f'iv{t}', f'    {words(1)} {xref(t)}']
        plants.append(Plant('xref', t, 0, len(lines) - 1))
    # optional markup error (at most one per docstring); non-fatal ones only where the format has them
    if r.random() < .25 and fmt in ('epytext', 'restructuredtext'):
        t = tok()
        if fmt == 'restructuredtext':
            # put it into a fresh paragraph at the end of the body (before the fields) so that its block is known
            idx = next((i for i, ln in enumerate(lines) if ln.startswith((':', '@'))), len(lines))
            ins = ['', f'{words(1)} *unclosed{t} {words(1)}'] if idx == len(lines) else [f'{words(1)} *unclosed{t} {words(1)}', '']
            at = idx
            lines[at:at] = ins
            shift = len(ins)
            for p in plants:
                if p.block_rel >= at:
                    p.block_rel += shift
                    p.tok_rel += shift
            ml = at + (1 if idx == len(lines) - shift else 0)
            plants.append(Plant('markup-nonfatal', 'unclosed' + t, ml, ml))
        else:
            idx = next((i for i, ln in enumerate(lines) if ln.startswith('@')), len(lines))
            ins = ['', f'{words(1)} B{{unclosed{t} {words(1)}'] if idx == len(lines) else [f'{words(1)} B{{unclosed{t} {words(1)}', '']
            at = idx
            lines[at:at] = ins
            shift = len(ins)
            for p in plants:
                if p.block_rel >= at:
                    p.block_rel += shift
                    p.tok_rel += shift
            ml = at + (1 if idx == len(lines) - shift else 0)
            plants.append(Plant('markup-fatal', 'unclosed' + t, ml, ml))
    return lines, plants


def _emit_doc(out: List[str], indent: str, lines: List[str], plants: List[Plant], r: Any, where: str) -> None:
    """write the docstring with a random layout, fixing up the physical lines of the plants"""
    layout = r.choice(['same-line', 'below', 'blank1', 'blank3', 'ws-blank', 'raw', 'below-deep'])
    if layout in ('same-line', 'raw') and all(ln.startswith(' ') for ln in lines[1:] if ln.strip()) and any(ln.strip() for ln in lines[1:]):
        # cleandoc() would dedent the rest relative to itself: the indentation that makes list items / field bodies is lost
        layout = 'below'
    q = '"""'
    prefix = 'r' if layout == 'raw' else ''
    body_indent = indent + ('    ' if layout == 'below-deep' else '')
    start = len(out) + 1          # physical line (1-based) of the opening quotes
    if layout in ('same-line', 'raw'):
        first_text_line = start
        out.append(f'{indent}{prefix}{q}{lines[0]}')
        rest = lines[1:]
    else:
        out.append(f'{indent}{prefix}{q}')
        if layout == 'blank1':
            out.append('')
        elif layout == 'blank3':
            out += ['', '', '']
        elif layout == 'ws-blank':
            out += [indent + '    ', '', indent]
        first_text_line = len(out) + 1
        out.append(body_indent + lines[0])
        rest = lines[1:]
    for ln in rest:
        out.append((body_indent + ln) if ln else '')
    out.append(f'{indent}{q}')
    end = len(out)
    for p in plants:
        p.block_line = first_text_line + p.block_rel
        p.tok_line = first_text_line + p.tok_rel
        p.doc_lines = (start, end)
        p.where = where


def _module(r: Any, fmt: str, k: int, n0: int) -> Tuple[str, List[Plant]]:
    out: List[str] = []
    plants: List[Plant] = []
    counter = [n0]

    def doc(indent: str, params: List[str], allow_param: bool, where: str, cls: bool = False) -> None:
        lines, ps = _docstring(r, fmt, counter[0], params, allow_param, cls=cls, top=not indent or cls)
        counter[0] += 50
        _emit_doc(out, indent, lines, ps, r, where)
        plants.extend(ps)
    doc('', [], False, 'module')
    out.extend(['# pad'] * k)             # vertical offset: everything below moves down by k lines
    out.append('import functools')
    for i in range(r.randint(1, 3)):
        if r.random() < .3:
            out.append('@functools.lru_cache(None)')
        out.append(f'def func{i}(a, b=1, *args, **kw):')
        doc('    ', ['a', 'b'], True, f'func{i}')
        out.append('    return a')
        out.extend([''] * r.randint(0, 2))
    if r.random() < .15:
        # a displayed expression that cannot be rendered (the XML parser behind the colorizer does not know &nbsp;)
        out.append(f"CONST = 'no\xa0break'")
        p = Plant('expr-unparsable', 'constant', 0, 0)
        p.block_line = p.tok_line = len(out)
        p.doc_lines = (len(out), len(out))
        p.where = 'CONST'
        plants.append(p)
    out.append('class K:')
    doc('    ', [], False, 'K', cls=True)
    out.append('    def twin(self): pass')
    out.append('    attr = 1')
    doc('    ', [], False, 'K.attr')
    out.append('    def meth(self, x):')
    doc('        ', ['x'], True, 'K.meth')
    out.append('        return x')
    # a second class defining `twin` as well: a bare reference to it from a function of the module is ambiguous
    out.append('class K2:')
    out.append('    def twin(self): pass')
    out.append('def ambig(a):')
    at = f'{counter[0]}'
    counter[0] += 50
    lines = [f'word{r.randrange(1000)} word{r.randrange(1000)}', '', f'word{r.randrange(1000)}', f'word {"L{twin}" if fmt == "epytext" else "`twin`"} word{at}', f'word{r.randrange(1000)}']
    p = Plant('ambiguous', 'ambiguous ref to twin', 2, 3)
    _emit_doc(out, '    ', lines, [p], r, 'ambig')
    plants.append(p)
    out.append('    return a')
    return '\n'.join(out) + '\n', plants


def _run(paths: List[str], fmt: str, werr: bool, quiet: int) -> Tuple[int, Any, str]:
    from pydoctor import driver
    out = tempfile.mkdtemp(prefix='vf16o-')
    del _captured[:]
    buf = io.StringIO()
    try:
        with contextlib.redirect_stdout(buf), contextlib.redirect_stderr(io.StringIO()):
            code = driver.main(['--html-output', out, '--project-name=p', f'--docformat={fmt}'] + ['-q'] * quiet + (['-W'] if werr else []) + paths)
    finally:
        shutil.rmtree(out, ignore_errors=True)
    return code, (_captured[-1] if _captured else None), buf.getvalue()


MSG = re.compile(r'^(?P<path>.*?):(?P<line>\d+|\?\?\?): (?P<text>.*)$', re.S)
# problems that are recognised by the wording of the message (the message does not quote the planted text): paired with
# their messages in line order, which any constant or small shift preserves
PAIRED = {
    'markup-nonfatal': 'start-string without end-string',
    'markup-fatal': "Unbalanced '{'",
    'consolidated': 'Unable to split consolidated field',
    'expr-unparsable': 'bad rendering of constant',
    'type-error': ('in type expression', 'invalid value set', 'invalid type'),
    'ambiguous': 'ambiguous ref to twin',
}
UNPARSABLE = ('markup-nonfatal', 'markup-fatal', 'consolidated', 'expr-unparsable', 'type-error')

SUB = """from mod{k} import K
class S(K):
    def meth(self, x):
        return 1
    attr = 2
"""


def _judge(res: core.Res, r: Any, fmt: str, label: str) -> None:
    from vf.mon import msgs
    n0 = r.randrange(1000, 9000) * 100
    rs = r.getstate()
    base = tempfile.mkdtemp(prefix='vf16-')
    try:
        reports: Dict[int, Dict[str, int]] = {}
        plants0: List[Plant] = []
        for k in (0, r.choice([1, 7])):
            r.setstate(rs)
            src, plants = _module(r, fmt, k, n0)
            in_pkg = r.random() < .3
            if in_pkg:
                # (class K moves to the package: `twin` is then defined by one class of the module only and is not ambiguous any more)
                plants = [p for p in plants if p.kind != 'ambiguous']
                # the module lives in a package that re-exports its class and first function: they are documented under the package,
                # their docstrings are still written in the module's file
                os.makedirs(os.path.join(base, f'pk{k}'), exist_ok=True)
                with open(os.path.join(base, f'pk{k}', '__init__.py'), 'w') as f:
                    f.write(f'"""Package."""\nfrom .mod{k} import K, func0\n__all__ = ["K", "func0"]\n')
                path = os.path.join(base, f'pk{k}', f'mod{k}.py')
            else:
                path = os.path.join(base, f'mod{k}.py')
            with open(path, 'w') as f:
                f.write(src)
            paths = [os.path.dirname(path)] if in_pkg else [path]
            with_sub = (not in_pkg) and r.random() < .3
            if with_sub:
                # a subclass in another file inherits K.meth's and K.attr's docstrings: problems in them are still problems of mod.py
                paths.append(os.path.join(base, f'sub{k}.py'))
                with open(paths[-1], 'w') as f:
                    f.write(SUB.format(k=k))
            werr = r.random() < .5
            quiet = r.choice([1, 1, 2, 3])
            try:
                code, system, stdout = _run(paths, fmt, werr, quiet)
            except core.CpuTimeout:
                raise
            except BaseException as e:  # noqa: BLE001
                res.v(f'C16:run-raises:{type(e).__name__}', f'{label}: driver.main raised {e!r}', source=src, docformat=fmt)
                return
            res.c('runs')
            w = {'source': src, 'docformat': fmt, 'case': label, 'offset': k, 'warnings_as_errors': werr, 'with_subclass_module': with_sub, 'reexported_by_package': in_pkg}
            if in_pkg:
                res.c('runs_with_reexport')
            log = msgs.messages(system)
            counted = [m for m in log if m[2] < 0 and not m[4]]
            # counting: the shadow counter of M-MSG, and (at the verbosity where warnings are shown) the lines actually printed
            res.c('count_checks')
            if system.violations != len(counted):
                res.v('C16:violations-counter', f'{label}: System.violations={system.violations} but {len(counted)} counted messages were emitted', **w)
            parsed = []
            for m in counted:
                mm = MSG.match(m[1])
                if mm:
                    parsed.append((mm.group('path'), mm.group('line'), mm.group('text'), m[0]))
            if quiet == 1:
                res.c('stdout_checks')
                printed = sum(1 for x in parsed if f'{x[0]}:{x[1]}: {x[2]}'.split('\n')[0] in stdout)
                if printed != len(parsed):
                    res.v('C16:counted-but-not-printed', f'{label}: {len(parsed)} located problems were counted but {printed} of them appear on stdout', **w)
            fatal_docs = {p.doc_lines for p in plants if p.kind == 'markup-fatal'}
            live = [p for p in plants if not (p.doc_lines in fatal_docs and p.kind != 'markup-fatal')]
            # exit status against the generator's ground truth
            res.c('exit_checks')
            unparsable = any(p.kind in UNPARSABLE for p in plants)
            exp_code = 3 if (werr and (live or counted)) else (2 if unparsable else 0)
            if code != exp_code:
                res.v(f'C16:exit-status:{"W" if werr else "noW"}:{exp_code}-vs-{code}', f'{label}: exit status {code}, expected {exp_code} (-W={werr}, planted problems reported={len(live)}, unparsable planted={unparsable}, violations={system.violations}, parse_errors={ {k_: len(v) for k_, v in system.parse_errors.items() if v} })', **w)
            if (code == 3) != bool(werr and system.violations) or (code == 2) != bool(not (werr and system.violations) and any(system.parse_errors.values())):
                res.v('C16:exit-status-vs-accounting', f'{label}: exit status {code} with -W={werr}, violations={system.violations}, parse_errors={dict(system.parse_errors)}', **w)
            claimed: set = set()
            pairs: List[Tuple[Plant, List[Any]]] = []
            for kind, needle in PAIRED.items():
                ps = sorted([p for p in live if p.kind == kind], key=lambda p: p.tok_line)
                needles = needle if isinstance(needle, tuple) else (needle,)
                ms = sorted([x for x in parsed if any(nd in x[2] for nd in needles) and os.path.abspath(x[0]) == os.path.abspath(path) and x[1] != '???'], key=lambda x: int(x[1]))
                # an inherited docstring is parsed once: no duplicates expected here
                if kind == 'type-error':
                    # not every unreadable type is reported with the same wording: pair by proximity to the docstring instead of by rank
                    for p in ps:
                        near = [x for x in ms if p.doc_lines[0] - 1 <= int(x[1]) <= p.doc_lines[1] + 4]
                        pairs.append((p, near[:1]))
                    claimed.update(id(x) for x in ms)
                    continue
                for n, p in enumerate(ps):
                    pairs.append((p, [ms[n]] if n < len(ms) else []))
                if len(ms) > len(ps):
                    res.c('unexpected_messages', len(ms) - len(ps))
                    res.setadd('unexpected_message_samples', ms[-1][2][:80])
                claimed.update(id(x) for x in ms)
            for p in live:
                if p.kind not in PAIRED:
                    cs = [x for x in parsed if p.token in x[2]]
                    pairs.append((p, cs))
                    claimed.update(id(x) for x in cs)
            for p in plants:
                res.c('planted_problems')
                if p not in live:
                    res.c('suppressed_by_fatal_error')
            rep: Dict[str, int] = {}
            for p, cands in pairs:
                if not cands:
                    res.v(f'C16:not-reported:{p.kind}', f'{label}: {p.kind} planted at line {p.tok_line} of {p.where} ({fmt}) was not reported (messages: {[x[2][:60] for x in parsed][:4]})', **w)
                    continue
                for x in cands:
                    if os.path.abspath(x[0]) != os.path.abspath(path):
                        res.v('C16:wrong-file', f'{label}: {p.kind} reported against {x[0]!r}, planted in {path!r}', **w)
                    if x[1] == '???':
                        res.v(f'C16:no-line:{p.kind}', f'{label}: {p.kind} in {p.where} reported without a line: {x[2][:80]}', **w)
                        continue
                    line = int(x[1])
                    rep[p.token + '@' + str(p.tok_line - (0 if p.where == 'module' else k))] = line
                    res.c('problems_located')
                    res.c(f'located_{p.kind}')
                    if fmt in ('epytext', 'restructuredtext') or p.kind == 'expr-unparsable':
                        lo, hi = p.block_line, p.tok_line
                    else:
                        lo, hi = p.doc_lines
                    if p.kind == 'type-error' and fmt == 'google' and hi < line <= hi + 3:
                        # the line is counted in the text the google section was converted to, where every typed argument takes two lines
                        res.v('C16:line:google:type-error:counted-in-converted-text', f'{label}: type-error in {p.where} reported at line {line}, past the end of its docstring (lines {lo}..{hi}): {x[2][:80]}', **w)
                    elif not (lo <= line <= hi):
                        res.v(f'C16:line:{fmt}:{p.kind}:{"before" if line < lo else "after"}{min(abs(line - lo), abs(line - hi))}', f'{label}: {p.kind} in {p.where} reported at line {line}, admissible lines {lo}..{hi} (token on line {p.tok_line}): {x[2][:80]}', **w)
            extra = [x for x in parsed if id(x) not in claimed]
            if extra:
                res.c('unexpected_messages', len(extra))
                res.setadd('unexpected_message_samples', re.sub(r'\d+', 'N', extra[0][2][:70]))
            reports[k] = rep
            if k == 0:
                plants0 = plants
        ks = sorted(reports)
        if len(ks) == 2:
            k = ks[1]
            where = {p.token + '@' + str(p.tok_line): p.where for p in plants0}
            for tok, l0 in reports[0].items():
                if tok in reports[k]:
                    res.c('shift_relations')
                    expect = l0 if where.get(tok) == 'module' else l0 + k
                    if reports[k][tok] != expect:
                        res.v('C16:shift-relation', f'{label}: moving the definitions down by {k} lines moved the report for {tok} from {l0} to {reports[k][tok]} (expected {expect})', docformat=fmt, case=label)
        if sum(len(v) for v in reports.values()) >= 2:
            res.distinct(label)
        res.c('evaluations')
    finally:
        shutil.rmtree(base, ignore_errors=True)


def run_case(case: Dict[str, Any]) -> core.Res:
    res = core.Res()
    fmt = FORMATS[0]
    for j in range(case['n']):
        idx = case['k'] + j
        fmt = FORMATS[idx % 4]
        r = core.rng('C16', case['seed'], idx)
        _judge(res, r, fmt, f"C16:{case['seed']}:{idx}")
    res.sample({'docformat': fmt, 'case': f"C16:{case['seed']}:{case['k']}"})
    return res
