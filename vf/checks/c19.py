"""C19 -- visitor extensions see a balanced, ordered walk whatever the main visitor prunes
(online trace recording through M-TRACE, offline stack automaton + executable reading of the contract)."""
from __future__ import annotations

import itertools
from pathlib import Path
from typing import Any, Dict, List, Tuple

from vf import core
from vf.ref import visitor_ref as ref
from vf.ref.visitor_ref import MAIN

ID = 'C19'
LEVEL = 'exploration'
RULE = ('part T: every ordered rooted tree with <=4 nodes x every assignment of {none,SkipChildren,SkipSiblings,'
        'SkipNode,SkipDeparture} to the main visitor\'s visit of each node x every subset of the four extension '
        'timings, for walk() and walkabout() (exhaustive), plus random trees <=12 nodes with several extensions per '
        'timing, also on a visitor that already walked once and got part of its extensions afterwards (ExtList.add); a walk is non-trivial if at least one pruning is raised and one extension is registered. part B: the '
        'real ASTBuilder/ModuleVistor (with its real extensions plus four recording extensions) on real and generated '
        'modules; a module is non-trivial if the main visitor raised SkipNode at least once in it.')
ASSUME = ['the contract is the one written in the docstrings of pydoctor/visitor.py (vf/ref/visitor_ref.py)',
          'prunings raised by extensions are outside the statement and are not generated',
          'visits made through NodeVisitor.generic_visit are visit-only by design (judged for at-most-once only)']
DECIDING = {'walks': 20000, 'staged_walks': 1000, 'builder_modules': 20, 'builder_events': 5000, 'builder_skipnode': 5, 'stack_checks': 20}
CPU_S = 900
WHENS = ['BEFORE', 'AFTER', 'INNER', 'OUTTER']


def _trees(n: int) -> List[Tuple]:
    """All ordered rooted trees with n nodes, as nested tuples of children."""
    if n == 1:
        return [()]
    out = []

    def forests(k: int) -> List[Tuple]:
        # ordered forests with k nodes in total
        if k == 0:
            return [()]
        res = []
        for first in range(1, k + 1):
            for t in _trees(first):
                for rest in forests(k - first):
                    res.append((t,) + rest)
        return res
    return forests(n - 1)


def cases(tier: str, seed: int) -> List[Dict[str, Any]]:
    out: List[Dict[str, Any]] = []
    shapes = [t for n in range(1, 5) for t in _trees(n)]
    for si in range(len(shapes)):
        for mode in ('walkabout', 'walk'):
            out.append({'part': 'T', 'shape': si, 'mode': mode})
    nrand = 40 if tier == 'quick' else 400
    for k in range(nrand):
        out.append({'part': 'RT', 'seed': seed, 'k': k, 'n': 100})
    from vf.gen import corpus
    r = core.rng(seed, 'C19', 'corpus')
    if tier == 'quick':
        paths = corpus.pick(r, 14, max_bytes=250_000)
    else:
        paths = [p for p, n, size in corpus.roots() if size < 3_000_000]
    for p in paths:
        out.append({'part': 'B', 'path': p})
    out.append({'part': 'B', 'src': TRICKY})
    try:
        from vf.gen import wild
        nw = 40 if tier == 'quick' else 1200
        for k in range(nw):
            out.append({'part': 'B', 'wild': [seed, k], 'n': 8})
    except ImportError:
        pass
    return out


TRICKY = {
    'a': '''
import typing
from typing import overload
from b import *
def f():
    class Hidden: pass
    def inner(): pass
class C:
    """doc"""
    @property
    def p(self): return 1
    @p.setter
    def p(self, v): pass
    def m(self):
        class InM: pass
        self.x = 1
    class N:
        def g(self):
            def h(): pass
@overload
def o(a: int) -> int: ...
@overload
def o(a: str) -> str: ...
def o(a): return a
if __name__ == '__main__':
    class Main: pass
    def main(): pass
if True:
    def cond(): pass
else:
    def cond(): pass
try:
    import x
except ImportError:
    x = None
for i in range(3):
    class Looped: pass
while False:
    z = 1
with open('f') as fh:
    w = 1
"string expr"
f(); C().m()
''',
    'b': '''
from a import C
__all__ = ['D', 'C']
class D(C):
    @classmethod
    def cm(cls): pass
    @staticmethod
    def sm(): pass
    def meth(self):
        if __name__ == '__main__':
            pass
async def co():
    async def inner(): pass
lam = lambda: 0
''',
    # what the bundled extensions themselves push and pop: zope interfaces created by a call (at module level, in a class, by a
    # subclass of InterfaceClass), implementers, attrs/deprecate-style declarations
    'z': '''
from zope.interface import Interface, Attribute, implementer, interface
from zope.interface.interface import InterfaceClass
import attr
class MyInterfaceClass(InterfaceClass):
    pass
IFoo = MyInterfaceClass("IFoo")
IBar = interface.InterfaceClass("IBar", (Interface,), {})
IBaz = InterfaceClass("IBaz")
class IReal(Interface):
    a = Attribute("doc of a")
    def m(x): "doc"
class K:
    IInner = MyInterfaceClass("IInner")
    def after_inner(self): pass
@implementer(IFoo, IReal)
class Impl:
    def m(self, x): pass
@attr.s(auto_attribs=True)
class At:
    x: int = attr.ib(default=1)
    y = attr.ib(type=str)
def after(): pass
''',
}


# ---------------------------------------------------------------------------------------------

_rec = None


def worker_init() -> None:
    global _rec
    from vf.mon.trace import Recorder
    _rec = Recorder()
    _rec.install()


class N:
    def __init__(self, ident: int) -> None:
        self.ident = ident
        self.children: List['N'] = []

    def __repr__(self) -> str:
        return f'n{self.ident}'


def _build_tree(shape: Tuple) -> List[N]:
    nodes: List[N] = []

    def mk(sh: Tuple) -> N:
        n = N(len(nodes))
        nodes.append(n)
        for c in sh:
            n.children.append(mk(c))
        return n
    mk(shape)
    return nodes


def _walk_once(nodes: List[N], prun: List[str], ext_whens: List[str], mode: str, staged: int = -1):
    """Run the real Visitor over the tree; return (actual trace, escaped exception or None).
    staged=k>=0: the first k extensions are registered at construction, one (unrecorded) walk is made, the remaining
    extensions are added with ExtList.add and the judged walk follows on the same visitor."""
    from pydoctor import visitor

    class Main(visitor.Visitor):  # type: ignore[type-arg]
        @classmethod
        def get_children(cls, ob: N):
            return list(ob.children)

        def visit_N(self, ob: N) -> None:
            p = prun[ob.ident]
            if p != ref.NONE:
                raise getattr(self, p)()

        def depart_N(self, ob: N) -> None:
            pass

    ext_classes = []
    for i, w in enumerate(ext_whens):
        ext_classes.append(type(f'Ext{i}{w}', (visitor.VisitorExt,), {'when': getattr(visitor.When, w)}))
    if staged < 0:
        main = Main(visitor.ExtList(*ext_classes))
    else:
        main = Main(visitor.ExtList(*ext_classes[:staged]))
        try:
            getattr(main, mode)(nodes[0])
        except Exception:  # noqa: BLE001 -- judged by the unstaged walks
            pass
        main.extensions.add(*ext_classes[staged:])
        main.extensions.attach_visitor(main)
    ext_ids = {}
    for w in visitor.When:
        for e in main.extensions._visitors[w]:
            ext_ids[id(e)] = type(e).__name__
    _rec.reset()
    escaped = None
    try:
        getattr(main, mode)(nodes[0])
    except Exception as e:  # noqa: BLE001
        escaped = e
    trace = []
    for who, kind, ob, exc, depth in _rec.events:
        name = MAIN if who is main else ext_ids.get(id(who), '?')
        if name == MAIN and kind == 'visit' and exc in ('SkipNode', 'SkipDeparture') and mode == 'walkabout':
            kind = 'visit-nodepart'
        trace.append((name, kind, ob.ident))
    exts = [(f'Ext{i}{w}', w) for i, w in enumerate(ext_whens)]
    return trace, escaped, exts


def _judge(res: core.Res, nodes: List[N], prun: List[str], ext_whens: List[str], mode: str, staged: int = -1) -> None:
    trace, escaped, exts = _walk_once(nodes, prun, ext_whens, mode, staged)
    res.c('walks')
    if staged >= 0:
        res.c('staged_walks')
    res.c('visitor_events', len(trace))
    desc = {'tree': _shape_str(nodes[0]), 'pruning': prun, 'exts': ext_whens, 'mode': mode, 'extensions_registered_before_first_walk': staged}
    used = sorted({p for p in prun if p != ref.NONE})
    kinds = '+'.join(used) or 'none'

    def mech(what: str) -> str:
        # mechanism key: which pruning action(s) are involved and what broke
        if 'SkipSiblings' in used:
            return f'C19:SkipSiblings-in-visit:{what}'
        return f'C19:{kinds}:{what}'
    if escaped is not None:
        res.v(mech('escapes'), f'{type(escaped).__name__} escaped {mode}() for {desc}', **desc)
    exp = ref.expected_trace(0, lambda i: [c.ident for c in nodes[i].children], lambda i: prun[i], exts,
                             departures=(mode == 'walkabout'))
    act = [(w, 'visit' if k == 'visit-nodepart' else k, n) for w, k, n in trace]
    pe, pa = ref.project(exp), ref.project(act)
    for who in sorted(set(pe) | set(pa)):
        if pe.get(who, []) != pa.get(who, []):
            res.v(mech('trace-main' if who == MAIN else 'trace-ext'),
                  f'{who}: contract requires {pe.get(who, [])}, observed {pa.get(who, [])} for {desc}',
                  expected=pe.get(who, []), observed=pa.get(who, []), **desc)
            break
    if mode == 'walkabout':
        problems = ref.check_trace(trace, exts)
        if problems:
            res.v(mech('automaton'), f'{problems[:3]} for {desc}', problems=problems[:10], **desc)
    if used and ext_whens:
        res.dn += 1


def _shape_str(n: N) -> str:
    return '(' + ''.join(_shape_str(c) for c in n.children) + ')'


def _run_T(case: Dict[str, Any], res: core.Res) -> None:
    shapes = [t for n in range(1, 5) for t in _trees(n)]
    shape = shapes[case['shape']]
    nodes = _build_tree(shape)
    n = len(nodes)
    subsets = [list(s) for k in range(5) for s in itertools.combinations(WHENS, k)]
    for prun in itertools.product(ref.PRUNINGS, repeat=n):
        for ext in subsets:
            _judge(res, nodes, list(prun), ext, case['mode'])
    res.c('evaluations', (5 ** n) * 16)
    res.sample({'tree': _shape_str(nodes[0]), 'mode': case['mode'], 'prunings': 5 ** n, 'ext_subsets': 16})


def _run_RT(case: Dict[str, Any], res: core.Res) -> None:
    r = core.rng(case['seed'], 'C19', 'RT', case['k'])
    for _ in range(case['n']):
        n = r.randint(5, 12)
        nodes = [N(0)]
        for i in range(1, n):
            node = N(i)
            r.choice(nodes).children.append(node)
            nodes.append(node)
        # renumber in preorder so that ids follow the walk
        order: List[N] = []

        def pre(x: N) -> None:
            order.append(x)
            for c in x.children:
                pre(c)
        pre(nodes[0])
        for i, x in enumerate(order):
            x.ident = i
        prun = [r.choice(ref.PRUNINGS) if r.random() < .4 else ref.NONE for _ in range(n)]
        ext = [r.choice(WHENS) for _ in range(r.randint(0, 6))]
        mode = r.choice(['walk', 'walkabout', 'walkabout'])
        _judge(res, order, prun, ext, mode)
        if ext:
            # the same visitor walks twice, part of the extensions being added in between
            _judge(res, order, prun, ext, mode, staged=r.randint(0, len(ext) - 1))
    res.c('evaluations', case['n'])


# ---- real builder ------------------------------------------------------------------------------

def _run_B(case: Dict[str, Any], res: core.Res) -> None:
    import ast
    from pydoctor import model, astbuilder, extensions, visitor
    system = model.System()
    system.options.verbosity = -10
    rec_exts = []
    for w in WHENS:
        rec_exts.append(type(f'Rec{w}', (extensions.ModuleVisitorExt,), {'when': getattr(visitor.When, w)}))
    # an extension whose handlers are named after *base classes* of the node types (ast.stmt, ast.expr, ast.AST): whatever the dispatch
    # does with such names, it must do the same for entering and for leaving
    base_named = {'enter': 0, 'leave': 0}

    def _enter(self: Any, node: Any) -> None:
        base_named['enter'] += 1

    def _leave(self: Any, node: Any) -> None:
        base_named['leave'] += 1
    rec_exts.append(type('RecBaseNamed', (extensions.ModuleVisitorExt,), {'when': visitor.When.BEFORE, 'visit_stmt': _enter, 'depart_stmt': _leave, 'visit_expr': _enter,
                                                                           'depart_expr': _leave, 'visit_AST': _enter, 'depart_AST': _leave, 'visit_mod': _enter, 'depart_mod': _leave}))
    extensions.ExtRegistrar(system).register_astbuilder_visitor(*rec_exts)

    stack_obs: List[Tuple[str, Any]] = []
    orig = astbuilder.ASTBuilder.processModuleAST

    def wrapped(self: Any, mod_ast: Any, mod: Any) -> None:
        raised = True
        try:
            orig(self, mod_ast, mod)
            raised = False
        finally:
            stack_obs.append((mod.fullName(), (list(self._stack), self.current, self.currentMod, raised)))
    astbuilder.ASTBuilder.processModuleAST = wrapped  # type: ignore[method-assign]
    _rec.reset()
    try:
        b = system.systemBuilder(system)
        if 'path' in case:
            b.addModule(Path(case['path']))
        elif 'wild' in case:
            from vf.gen import wild
            for j in range(case['n']):
                src = wild.module_source(core.rng('wild', *case['wild'], j))
                b.addModuleString(src, f'w{j}')
        else:
            for name, src in case['src'].items():
                b.addModuleString(src, name)
        try:
            b.buildModules()
        except RecursionError:
            res.c('builder_aborted_runs')      # C01's business; trace up to here is still judged
        except Exception:  # noqa: BLE001
            res.c('builder_aborted_runs')
    finally:
        astbuilder.ASTBuilder.processModuleAST = orig  # type: ignore[method-assign]

    label = case.get('path') or ('wild%s' % case.get('wild')) if ('path' in case or 'wild' in case) else 'tricky'
    res.c('base_named_handler_checks')
    if base_named['enter'] != base_named['leave'] and not any(st[3] for _, st in stack_obs):
        res.v('C19:base-class-named-handlers-unbalanced', f'{label}: handlers named after base classes of the node types were entered {base_named["enter"]} times and left {base_named["leave"]} times',
              case=label)
    for name, (stack, cur, curmod, raised) in stack_obs:
        if raised:
            continue
        res.c('stack_checks')
        if stack or cur is not None or curmod is not None:
            res.v('C19:builder-stack', f'after processModuleAST({name}) in {label}: _stack={stack!r} current={cur!r} currentMod={curmod!r}',
                  module=name, case=label)

    # group events by main visitor
    groups: Dict[int, Dict[str, Any]] = {}
    for ev in _rec.events:
        who = ev[0]
        main = who if isinstance(who, visitor.Visitor) else getattr(who, 'visitor', None)
        if main is None:
            continue
        g = groups.setdefault(id(main), {'main': main, 'events': []})
        g['events'].append(ev)
    for g in groups.values():
        main = g['main']
        if not isinstance(main, astbuilder.ModuleVistor):
            continue
        aborted = any(nm == main.module.fullName() and st[3] for nm, st in stack_obs)
        if aborted:
            continue
        res.c('builder_modules')
        exts: List[Tuple[str, str]] = []
        names: Dict[int, str] = {id(main): MAIN}
        for w in visitor.When:
            for i, e in enumerate(main.extensions._visitors[w]):
                nm = f'{type(e).__name__}#{i}'
                names[id(e)] = nm
                exts.append((nm, w.name))
        nid: Dict[int, int] = {}
        nodes: Dict[int, Any] = {}

        def num(ob: Any) -> int:
            k = id(ob)
            if k not in nid:
                nid[k] = len(nid)
                nodes[nid[k]] = ob
            return nid[k]
        walk_trace = []
        prun: Dict[int, str] = {}
        seen_once: Dict[Tuple[str, int], int] = {}
        root = None
        nskip = 0
        for who, kind, ob, exc, depth in g['events']:
            nm = names.get(id(who), '?')
            n = num(ob)
            if kind == 'visit':
                seen_once[(nm, n)] = seen_once.get((nm, n), 0) + 1
            if depth > 0:
                res.c('visit_only_events')
                if kind == 'depart':
                    res.v('C19:builder-generic-depart', f'depart during generic_visit in {label}', case=label)
                continue
            if root is None and nm == MAIN or root is None:
                root = n if root is None else root
            if nm == MAIN and kind == 'visit' and exc:
                prun[n] = exc
                nskip += 1
                if exc in ('SkipNode', 'SkipDeparture'):
                    kind = 'visit-nodepart'
            elif exc:
                res.c('extension_raised_pruning')
            walk_trace.append((nm, kind, n))
        res.c('builder_events', len(walk_trace))
        res.c('builder_skipnode', nskip)
        twice = [k for k, c in seen_once.items() if c > 1]
        if twice:
            who, n = twice[0]
            res.v('C19:builder-enter-twice', f'{who} entered {type(nodes[n]).__name__} at line {getattr(nodes[n], "lineno", "?")} {seen_once[twice[0]]}x in {label} ({main.module.fullName()})',
                  case=label, module=main.module.fullName())
        problems = ref.check_trace(walk_trace, exts)
        if problems:
            res.v('C19:builder-automaton', f'{problems[:3]} in {label} ({main.module.fullName()})', problems=problems[:10], case=label)
        if root is not None:
            def kids(i: int) -> List[int]:
                body = getattr(nodes[i], 'body', None)
                return [num(c) for c in body] if isinstance(body, list) else []
            exp = ref.expected_trace(root, kids, lambda i: prun.get(i, ref.NONE), exts)
            pe = ref.project(exp)
            pa = ref.project([(w, 'visit' if k == 'visit-nodepart' else k, n) for w, k, n in walk_trace])
            for who in sorted(set(pe) | set(pa)):
                if pe.get(who, []) != pa.get(who, []):
                    e_, a_ = pe.get(who, []), pa.get(who, [])
                    i = next((j for j in range(min(len(e_), len(a_))) if e_[j] != a_[j]), min(len(e_), len(a_)))

                    def d(x: Any) -> str:
                        return f'{x[0]} {type(nodes[x[1]]).__name__}@{getattr(nodes[x[1]], "lineno", "?")}'
                    res.v('C19:builder-trace', f'{who} in {label} ({main.module.fullName()}): first divergence at event {i}: contract {d(e_[i]) if i < len(e_) else None}, observed {d(a_[i]) if i < len(a_) else None}',
                          case=label, module=main.module.fullName())
                    break
        if nskip:
            res.distinct(f'B:{label}:{main.module.fullName()}')
    res.c('evaluations', len(groups))
    res.sample({'builder_case': label, 'modules': len(groups)})


def run_case(case: Dict[str, Any]) -> core.Res:
    res = core.Res()
    {'T': _run_T, 'RT': _run_RT, 'B': _run_B}[case['part']](case, res)
    return res


def finish(agg: Dict[str, Any], tier: str, seed: int) -> None:
    agg['exhaustive'] = True
    agg['extra'] = {'exhaustive_part': 'trees<=4 nodes x 5^n prunings x 16 timing subsets x {walk, walkabout}'}
