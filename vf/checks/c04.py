"""C04 -- a name resolves to what Python would bind it to, or not at all (reference: CPython's bindings of the same project)."""
from __future__ import annotations

import traceback
from typing import Any, Dict, List, Optional, Set, Tuple

from vf import core
from vf.gen import project, projrun

ID = 'C04'
LEVEL = 'exploration'
RULE = ('generated multi-package projects (depth<=3, one or two roots, analysed with the roots in both orders; packages may import and star-import from their own submodules, which may import from the package) in which every definition has a globally unique name and each '
        'name is bound once per scope; import forms: from/from-as/import/import-as/from-pkg-import-module/star, relative '
        'levels 1-3, package and module contexts, imports in class bodies, nested classes. For every name bound at run '
        'time in every module and class namespace (and, from classes, every module-global name), and for dotted chains '
        'through module aliases and classes, Documentable.resolveName is compared with the object CPython binds, joined '
        'through the unique definition names. Non-trivial project: has at least one aliased or relative import.')
ASSUME = ['CPython is the reference for what a name denotes', 'None is allowed except for names imported directly from the defining module or reached through a module alias']
DECIDING = {'directed_queries': 100, 'unbound_name_queries': 300, 'reversed_root_orders': 20, 'star_import_names': 100, 'names_resolved': 5000, 'must_resolve_checked': 800, 'dotted_chains': 1500, 'class_scope_queries': 1000, 'alias_queries': 100, 'relative_imports': 100}
CPU_S = 900
PER = 10


def cases(tier: str, seed: int) -> List[Dict[str, Any]]:
    n = 300 if tier == 'quick' else 6000
    return [{'seed': seed, 'k': k, 'n': PER} for k in range(0, n, PER)] + [{'part': 'D', 'name': name} for name in DIRECTED]


def worker_init() -> None:
    from vf.mon import sched
    sched.install_cycle_monitors()


def _expected(info: Dict[str, Any], n: str, varnames: Dict[str, str], bound_vars: Dict[str, str]) -> Optional[str]:
    k = info.get('kind')
    if k == 'module':
        return str(info['modname'])
    if k in ('class', 'function', 'method', 'classmethod', 'staticmethod', 'property'):
        if info.get('defmod') and info.get('qual') and '<locals>' not in info['qual']:
            return f"{info['defmod']}.{info['qual']}"
        return None
    if k == 'value':
        if n in varnames:
            return varnames[n]
        return bound_vars.get(n)
    return None


def _import_graph(sources: Dict[str, Tuple[bool, str]]) -> Dict[str, Set[str]]:
    """module -> project modules its top-level code (class bodies included, function bodies not) imports, from the source text"""
    import ast
    names = set(sources)
    graph: Dict[str, Set[str]] = {n: set() for n in names}
    _STAR_EDGES.clear()

    def add(frm: str, target: str) -> None:
        parts = target.split('.')
        for i in range(len(parts), 0, -1):
            cand = '.'.join(parts[:i])
            if cand in names:
                graph[frm].add(cand)
                # importing a.b.c imports a and a.b first
                for k in range(1, i):
                    graph[frm].add('.'.join(parts[:k]))
                return

    class V(ast.NodeVisitor):
        def __init__(self, mod: str, is_pkg: bool) -> None:
            self.mod, self.is_pkg = mod, is_pkg

        def visit_FunctionDef(self, node: Any) -> None:
            return
        visit_AsyncFunctionDef = visit_FunctionDef
        visit_Lambda = visit_FunctionDef

        def visit_Import(self, node: ast.Import) -> None:
            for a in node.names:
                add(self.mod, a.name)

        def visit_ImportFrom(self, node: ast.ImportFrom) -> None:
            base = node.module or ''
            if node.level:
                pkg = self.mod.split('.') if self.is_pkg else self.mod.split('.')[:-1]
                pkg = pkg[:len(pkg) - (node.level - 1)] if node.level > 1 else pkg
                base = '.'.join(pkg + ([node.module] if node.module else []))
            add(self.mod, base)
            for a in node.names:
                add(self.mod, f'{base}.{a.name}')
                if a.name == '*' and base in names:
                    _STAR_EDGES.setdefault(self.mod, set()).add(base)
    for mod, (is_pkg, text) in sources.items():
        try:
            V(mod, is_pkg).visit(ast.parse(text))
        except SyntaxError:
            pass
    return graph


_STAR_EDGES: Dict[str, Set[str]] = {}


def _poisoned(system: Any, graph: Dict[str, Set[str]], dump: Dict[str, Any], module: str, name: str) -> bool:
    """the known mechanism: some star import `from B import *` ran in A while B was still being analysed (and the sources really contain
    a cycle through A and B), B provides `name`, and `module` is A or star-imports A through a chain of star imports"""
    from pydoctor import model
    for a_mod, b_mod in system.__dict__.get('_vf_star_in_progress', []):
        if not _reaches(graph, b_mod, a_mod):
            continue
        brt = dump['modules'].get(b_mod) or {'ns': {}, 'all': None}
        bobj = system.allobjects.get(b_mod)
        provided = set(brt['ns']) | set(brt.get('all') or []) | (set(bobj.all or []) if isinstance(bobj, model.Module) else set())
        if name not in provided:
            continue
        if module == a_mod or _reaches(_STAR_EDGES, module, a_mod):
            return True
    return False


def _reaches(graph: Dict[str, Set[str]], a: str, b: str) -> bool:
    seen, todo = set(), [a]
    while todo:
        x = todo.pop()
        for y in graph.get(x, ()):
            if y == b:
                return True
            if y not in seen:
                seen.add(y)
                todo.append(y)
    return False


def _collect_binds(items: List[project.Item], out: List[project.Item]) -> None:
    for it in items:
        if it.kind == 'import':
            out.append(it)
        elif it.kind in ('block', 'dup'):
            _collect_binds(it.members, out)


# ---- directed projects (hand-written shapes the generator does not produce), judged without a spec: every name the interpreter
# binds to a class, function or module -- and every dotted chain through module-valued names -- must not resolve to another object
DIRECTED: Dict[str, Dict[str, str]] = {
    'local-package-named-like-a-root': {
        'core/__init__.py': '', 'core/helpers.py': 'def top(): pass\nclass Shared: pass\n', 'core/only_top.py': 'def only(): pass\n',
        'app/__init__.py': '', 'app/core/__init__.py': 'from . import helpers\n', 'app/core/helpers.py': 'def inner(): pass\nclass Shared: pass\n',
        'app/main.py': 'from . import core\nfrom .core import helpers as H\nimport core as topcore\nimport core.helpers\nclass K(core.helpers.Shared):\n    from . import core as c2\n    x = 1\ndef f(a: core.helpers.Shared): pass\n',
        'app/other.py': 'import app.core.helpers\nimport core.only_top\nfrom app import core as appcore\nclass L(appcore.helpers.Shared): pass\n'},
    'multi-name-from-package': {
        'kit/__init__.py': 'class Crate: pass\ndef build(): pass\n', 'kit/parts.py': 'class Part: pass\n', 'kit/paint.py': 'def mix(): pass\n', 'paint.py': 'def mix(): pass\n',
        'user.py': 'from kit import parts, paint, Crate\nfrom kit import build, parts as P2, Crate as C2\nclass U(Crate, parts.Part):\n    from kit import paint, build\n',
        'kit/inner.py': 'from . import parts, paint\nimport paint as top_paint\nfrom . import paint as p3, parts as p4\n'},
    'same-leaf-names': {
        'pa/__init__.py': '', 'pa/util.py': 'class Tool: pass\n', 'pb/__init__.py': '', 'pb/util.py': 'class Tool: pass\n',
        'pa/use.py': 'from . import util\nfrom pb import util as butil\nimport pb.util\nclass A(util.Tool): pass\nclass B(butil.Tool): pass\nclass C(pb.util.Tool): pass\n',
        'pb/use.py': 'from .util import Tool\nfrom pa.util import Tool as ATool\nimport pa.util as util\nclass D(Tool): pass\nclass E(util.Tool): pass\n'},
    # a package whose __init__ binds its own submodules (by `from . import x` and as the side effect of `import pkg.y`) is star-imported,
    # also through a second star import; a top-level module has the name of one of the submodules
    'star-import-of-package-binding-submodules': {
        'kit/__init__.py': 'from . import parts\nimport kit.tools\nclass Crate: pass\n', 'kit/parts.py': 'class Bolt: pass\n', 'kit/tools.py': 'class Saw: pass\n',
        'tools.py': 'class Saw: pass\n',
        'yard.py': 'from kit import *\nclass Y(parts.Bolt, tools.Saw): pass\n', 'far.py': 'from yard import *\nclass F(parts.Bolt):\n    t = tools\n'},
    # alias assignments in a class body whose right-hand side starts with a name bound in that class body (import, module alias, nested
    # class), the module binding the same names to other objects
    'class-body-aliases': {
        'pb/__init__.py': 'def fpb():\n    pass\nclass Alpha:\n    pass\n', 'pa/__init__.py': '', 'pa/m1.py': 'class Alpha:\n    pass\ndef fa():\n    pass\n',
        'pa/m2.py': 'from pb import fpb as h\nimport pb as am\nclass Beta:\n    from pa.m1 import fa as h\n    import pa.m1 as am\n    k = h\n    mod = am\n    A = am.Alpha\n'
                    '    class Inner:\n        pass\n    I = Inner\n    class Deep:\n        from pb import Alpha as Inner\n        J = Inner\ng = h\nB = am.Alpha\n'},
    # an attribute of a package is named (dotted, in a base class) by a module analysed before the package's __init__ was: whatever was
    # looked up at that time, the names must resolve once everything is processed
    'package-attribute-named-before-its-init': {
        'app/__init__.py': '', 'app/views.py': 'import lib.core.impl\nclass View(lib.core.Alpha):\n    pass\nclass View2(lib.core.impl.Alpha):\n    pass\n',
        'lib/__init__.py': '', 'lib/core/__init__.py': 'from .impl import Alpha\nfrom .impl import make_alpha as mk\n',
        'lib/core/impl.py': 'class Alpha:\n    pass\ndef make_alpha():\n    pass\n', 'lib/user.py': 'from lib.core import *\nimport lib.core as lc\nclass U(lc.Alpha):\n    pass\n'},
    # aliases whose right-hand side spells the full name of its target through a plain `import a.b` (nothing to expand: still an alias)
    'aliases-spelling-full-names': {
        'pb/__init__.py': 'TOP = 1\n', 'pb/core.py': 'def fb():\n    pass\nclass Gamma:\n    pass\n', 'pa/__init__.py': '',
        'pa/m2.py': 'import pb.core\nimport pb\nX = pb.core.fb\nP = pb\nK = pb.core.Gamma\nM = pb.core\nclass C:\n    Y = pb.core.fb\n    Q = pb.core\n    class D(pb.core.Gamma):\n        Z = pb.core.Gamma\n'},
    # names bound in a try body whose except clause (never run) binds them otherwise, at module and class level
    'try-except-fallback-imports': {
        'alpha/__init__.py': '', 'alpha/fast.py': 'class Quick:\n    pass\n', 'alpha/slow.py': 'class Steady:\n    pass\n',
        'compat.py': 'try:\n    from alpha.fast import Quick as Engine\nexcept ImportError:\n    from alpha.slow import Steady as Engine\ntry:\n    import alpha.fast as impl\nexcept ImportError:\n    import alpha.slow as impl\nelse:\n    pass\n'
                     'class Holder:\n    try:\n        from alpha.fast import Quick as Chosen\n    except (ImportError, AttributeError):\n        from alpha.slow import Steady as Chosen\n    finally:\n        pass\nclass Motor(Engine):\n    pass\n',
        },
    # a package without __all__ imports names from its own private submodule, other modules import them straight from the submodule
    'package-imports-from-private-submodule': {
        'delta/__init__.py': 'from ._core import Widget, make_widget\n', 'delta/_core.py': 'class Widget:\n    pass\ndef make_widget():\n    pass\n',
        'delta/app.py': 'from delta._core import Widget, make_widget\nfrom ._core import Widget as W2\nimport delta._core as core\nclass Panel(Widget):\n    from delta._core import Widget as Kind\n',
        'gamma/__init__.py': 'from ._base import Base\nfrom . import _base\n', 'gamma/_base.py': 'class Base:\n    pass\n', 'gamma/tools.py': 'from gamma._base import Base\nclass T(Base):\n    pass\n'},
    # a class binds a name through a package that merely re-imports it (pydoctor may not follow that: "not at all" is allowed), while the
    # module and the enclosing class bind the same name to other objects (which Python never consults for the class)
    'class-binding-shadowed-by-enclosing-scopes': {
        '#may-not-resolve': 'part part2',
        'kit/__init__.py': 'from .impl import Widget\n', 'kit/impl.py': 'class Widget: pass\n', 'other.py': 'class Gear: pass\n',
        'shop.py': 'from other import Gear as part\nclass Bench:\n    from kit import Widget as part\n    class Inner:\n        from kit import Widget as part2\n    from other import Gear as part2\n'},
}


def _judge_directed(res: core.Res, label: str, dump: Dict[str, Any], system: Any, sources: Dict[str, str]) -> None:
    from pydoctor import model
    w = {'project': label, 'sources': sources}
    lenient = set(sources.get('#may-not-resolve', '').split())
    for full, rt in dump['modules'].items():
        mod = system.allobjects.get(full)
        if not isinstance(mod, model.Module):
            res.v('C04:directed:module-missing', f'{label}: {full} is not documented', **w)
            continue

        def check(ctx: Any, ctxname: str, name: str, info: Dict[str, Any], must: bool) -> None:
            exp = _expected(info, name, {}, {})
            if exp is None:
                return
            res.c('names_resolved')
            res.c('directed_queries')
            try:
                got = ctx.resolveName(name)
            except Exception as e:  # noqa: BLE001
                res.v(f'C04:resolve-raises:{type(e).__name__}', f'{label}: {ctxname}.resolveName({name!r}) raised {e!r}', **w)
                return
            if got is not None and got.fullName() != exp:
                res.v('C04:wrong-object:' + ('dotted' if '.' in name else 'plain'), f'{label}: in {ctxname}, {name!r} resolves to {got.fullName()}, Python binds it to {exp}', name=name, **w)
            elif got is None and must:
                res.c('must_resolve_checked')
                res.v('C04:must-resolve:' + ('module-alias' if '.' in name else 'direct-import'), f'{label}: in {ctxname}, {name!r} does not resolve; Python binds it to {exp}', name=name, **w)

        def walk(ctx: Any, ctxname: str, ns: Dict[str, Any], depth: int) -> None:
            for n, info in ns.items():
                if n.startswith('__'):
                    continue
                # every binding of these projects is an import from (or of) the defining module, or a definition: it must resolve
                check(ctx, ctxname, n, info, n not in lenient or ctx is mod)
                if info.get('kind') == 'module':
                    target = dump['modules'].get(info['modname'])
                    for k2, i2 in (target or {'ns': {}})['ns'].items():
                        if k2.startswith('__'):
                            continue
                        check(ctx, ctxname, f'{n}.{k2}', i2, i2.get('kind') != 'module' and _expected(i2, k2, {}, {}) == f"{info['modname']}.{k2}")
                        if i2.get('kind') == 'module':
                            t2 = dump['modules'].get(i2['modname'])
                            for k3, i3 in (t2 or {'ns': {}})['ns'].items():
                                if not k3.startswith('__'):
                                    check(ctx, ctxname, f'{n}.{k2}.{k3}', i3, False)
                if info.get('kind') == 'class' and 'ns' in info and depth < 2:
                    c = ctx.contents.get(n)
                    if isinstance(c, model.Class):
                        walk(c, f'{ctxname}.{n}', info['ns'], depth + 1)
        walk(mod, full, rt['ns'], 0)


def _run_directed(case: Dict[str, Any], res: core.Res) -> None:
    import shutil
    import tempfile
    from pathlib import Path
    name = case['name']
    srcs = DIRECTED[name]
    base = Path(tempfile.mkdtemp(prefix='vf04d-'))
    try:
        for rel, text in srcs.items():
            if rel.startswith('#'):
                continue
            pth = base / rel
            pth.parent.mkdir(parents=True, exist_ok=True)
            pth.write_text(text)
        dump = projrun.cpython_dump([str(base)]).get(str(base))
        if not dump or 'error' in dump:
            res.c('generator_discards')
            res.setadd('directed_discards', f'{name}: {(dump or {}).get("error")}')
            return
        roots = sorted(p for p in base.iterdir() if (p.is_dir() and (p / '__init__.py').exists()) or p.suffix == '.py')
        for order in (roots, list(reversed(roots))):
            system = projrun.build_system(order)
            _judge_directed(res, f'directed:{name}', dump, system, srcs)
            res.c('directed_projects')
        res.c('evaluations')
        res.distinct(f'directed:{name}')
    finally:
        shutil.rmtree(base, ignore_errors=True)
    res.sample({'directed': name})


def run_case(case: Dict[str, Any]) -> core.Res:
    res = core.Res()
    if case.get('part') == 'D':
        _run_directed(case, res)
        return res
    specs = [project.generate(core.rng('C04', case['seed'], case['k'] + j), project.Features.resolution()) for j in range(case['n'])]
    with projrun.TmpProjects(specs, seed=('C04', case['seed'], case['k'])) as tp:
        dumps = projrun.cpython_dump([str(d) for d in tp.dirs])
        for j, spec in enumerate(specs):
            label = f"C04:{case['seed']}:{case['k'] + j}"
            dump = dumps.get(str(tp.dirs[j]))
            if not dump or 'error' in dump:
                res.c('generator_discards')
                continue
            try:
                system = projrun.build_system(tp.roots[j])
            except Exception as e:  # noqa: BLE001
                res.v(f'C04:analysis-raises:{type(e).__name__}', f'{label}: analysis raised {e!r}', traceback=traceback.format_exc()[-1500:])
                continue
            res.c('evaluations')
            _judge(res, spec, label, dump, system, ('C04', case['seed'], case['k']), j)
            if len(tp.roots[j]) > 1:
                # the same project with the paths given in the other order
                try:
                    system2 = projrun.build_system(list(reversed(tp.roots[j])))
                except Exception as e:  # noqa: BLE001
                    res.v(f'C04:analysis-raises:{type(e).__name__}', f'{label}/reversed-roots: analysis raised {e!r}', traceback=traceback.format_exc()[-1500:])
                    continue
                res.c('reversed_root_orders')
                _judge(res, spec, label + '/reversed-roots', dump, system2, ('C04', case['seed'], case['k']), j)
    return res


def _judge(res: core.Res, spec: project.Spec, label: str, dump: Dict[str, Any], system: Any, seedkey: Any, j: int) -> None:
    from pydoctor import model
    varnames = {q.split('.')[-1]: spec.def_fullname(uid) for uid, (mid, q, kind) in spec.defs.items() if kind == 'var'}
    nontrivial = False
    graph = _import_graph(project.sources(spec, seed=(seedkey, j)))
    for m in spec.mods:
        full = spec.modname(m.mid)
        rt = dump['modules'].get(full)
        mod = system.allobjects.get(full)
        if rt is None or not isinstance(mod, model.Module):
            continue
        imports: List[project.Item] = []
        _collect_binds(m.items, imports)
        must: Dict[str, str] = {}            # local name -> why it must resolve
        star_src: Dict[str, str] = {}
        bound_vars: Dict[str, str] = {}
        modalias: Set[str] = set()
        for it in imports:
            if it.star_from:
                srcm = dump['modules'].get(it.star_from)
                if srcm is not None:
                    names = srcm['all'] if srcm['all'] is not None else [n for n in srcm['ns'] if not n.startswith('_')]
                    for n in names:
                        i2 = srcm['ns'].get(n)
                        e2 = _expected(i2, n, varnames, {}) if i2 else None
                        # only names the star-imported module itself defines: "imported directly from the module that defines the object"
                        if e2 == f'{it.star_from}.{n}' and n in rt['ns']:
                            must[n] = 'star-imported directly from its defining module'
                            star_src[n] = it.star_from
                            res.c('star_import_names')
            if ' as ' in it.text or it.text.startswith('from .'):
                nontrivial = True
            if it.text.startswith('from .'):
                res.c('relative_imports')
            for ln, kind, target in it.binds:
                if kind == 'obj':
                    must[ln] = 'imported directly from its defining module'
                    if spec.defs[target][2] == 'var':
                        bound_vars[ln] = spec.def_fullname(target)
                    if ' as ' in it.text:
                        res.c('alias_queries')
                elif kind == 'mod':
                    modalias.add(ln)
        src = None
        # names a star import may or may not bind depending on where the interpreter entered an import cycle: the star import's source
        # module lies on a cycle of the import graph of the sources, so at run time it may have been only partly initialised
        cyclic_star_names: Set[str] = set()
        for it in imports:
            if it.star_from and _reaches(graph, it.star_from, it.star_from):
                srt = dump['modules'].get(it.star_from)
                cyclic_star_names.update(n for n in (srt or {'ns': {}})['ns'] if not n.startswith('_'))
                smod = system.allobjects.get(it.star_from)
                if isinstance(smod, model.Module):
                    cyclic_star_names.update(n for n in list(smod.contents) + list(smod._localNameToFullName_map) if not n.startswith('_'))

        def witness() -> Dict[str, Any]:
            return {'project': label, 'module': full, 'sources': project.sources(spec, seed=(seedkey, j))}

        def check(ctx: Any, ctxname: str, name: str, exp: Optional[str], why_must: Optional[str]) -> None:
            res.c('names_resolved')
            try:
                got = ctx.resolveName(name)
            except Exception as e:  # noqa: BLE001
                res.v(f'C04:resolve-raises:{type(e).__name__}', f'{label}: {ctxname}.resolveName({name!r}) raised {e!r}', **witness())
                return
            gotname = got.fullName() if got is not None else None
            if exp is None:
                return
            if name.split('.')[0] in cyclic_star_names and ctx is mod and got is not None and gotname != exp:
                res.c('not_judged_star_import_from_cyclic_module')
                return
            if got is not None and gotname != exp:
                # the known star-import-in-progress mechanism can also leave an *older* binding of the name in place
                parts = name.split('.')
                # the binding at fault lives in this module, or (dotted name) in the module the first component denotes
                sites = [(full, parts[0])]
                if len(parts) > 1:
                    first = rt['ns'].get(parts[0], {})
                    if first.get('kind') == 'module':
                        sites.append((first['modname'], parts[1]))
                if any(_poisoned(system, graph, dump, m_, n_) for m_, n_ in sites):
                    res.v('C04:wrong-object:star-import-from-module-in-progress', f'{label}: in {ctxname}, {name!r} resolves to {gotname}, Python binds it to {exp} '
                          f'(a star import that binds it ran while its source module was still being analysed)', name=name, **witness())
                    return
                form = 'dotted' if '.' in name else 'plain'
                res.v(f'C04:wrong-object:{form}', f'{label}: in {ctxname}, {name!r} resolves to {gotname}, Python binds it to {exp}', name=name, **witness())
            elif got is None and why_must and _poisoned(system, graph, dump, full, name.split('.')[0]):
                # the star import ran while its source module was still being analysed, and the sources really contain that cycle
                # (the source module imports, directly or not, the module that star-imports it): the names defined later are never bound
                res.c('must_resolve_checked')
                res.v('C04:must-resolve:star-import-from-module-in-progress', f'{label}: in {ctxname}, {name!r} ({why_must}) does not resolve; Python binds it to {exp}', name=name, **witness())
            elif got is None and why_must:
                res.c('must_resolve_checked')
                res.v('C04:must-resolve:' + ('module-alias' if 'alias' in why_must else ('star-import' if 'star' in why_must else 'direct-import')),
                      f'{label}: in {ctxname}, {name!r} ({why_must}) does not resolve; Python binds it to {exp}', name=name, **witness())
            elif why_must:
                res.c('must_resolve_checked')

        def walk_ns(ctx: Any, ctxname: str, ns: Dict[str, Any], globals_ns: Optional[Dict[str, Any]], depth: int,
                    enclosing: Tuple[Dict[str, Any], ...] = ()) -> None:
            for n, info in ns.items():
                if n.startswith('__') and n.endswith('__'):
                    continue
                if n in ('_contextlib', '_noop', '_ctx', '_i', 'TYPE_CHECKING'):
                    continue
                exp = _expected(info, n, varnames, bound_vars)
                check(ctx, ctxname, n, exp, must.get(n) if globals_ns is None or n in ns else None)
                # dotted chains
                if info.get('kind') == 'module' and n in modalias:
                    target = dump['modules'].get(info['modname'])
                    if target:
                        for k2, i2 in target['ns'].items():
                            if k2.startswith('_') or i2.get('kind') == 'module':
                                continue
                            e2 = _expected(i2, k2, varnames, {})
                            if e2 is None:
                                continue
                            res.c('dotted_chains')
                            defined_there = e2.startswith(info['modname'] + '.') and e2.count('.') == info['modname'].count('.') + 1
                            check(ctx, ctxname, f'{n}.{k2}', e2, 'reached through a module alias' if defined_there else None)
                            if i2.get('kind') == 'class' and 'ns' in i2:
                                for k3, i3 in i2['ns'].items():
                                    if k3.startswith('__'):
                                        continue
                                    e3 = _expected(i3, k3, varnames, {})
                                    if e3:
                                        res.c('dotted_chains')
                                        check(ctx, ctxname, f'{n}.{k2}.{k3}', e3, None)
                if info.get('kind') == 'class' and 'ns' in info:
                    for k2, i2 in info['ns'].items():
                        if k2.startswith('__'):
                            continue
                        e2 = _expected(i2, k2, varnames, {})
                        if e2:
                            res.c('dotted_chains')
                            check(ctx, ctxname, f'{n}.{k2}', e2, None)
            if globals_ns is not None:
                # Python's lookup from a class body: own names, then module globals (never the enclosing class)
                for n, info in globals_ns.items():
                    if n in ns or (n.startswith('__') and n.endswith('__')) or n in ('_contextlib', '_noop', '_ctx', '_i', 'TYPE_CHECKING'):
                        continue
                    res.c('class_scope_queries')
                    shadow = next((e[n] for e in reversed(enclosing) if n in e), None)
                    if shadow is not None:
                        # an enclosing class binds the same name: Python skips class scopes, pydoctor's lookup walks them
                        res.c('enclosing_class_shadow_queries')
                        exp_g, exp_s = _expected(info, n, varnames, bound_vars), _expected(shadow, n, varnames, bound_vars)
                        try:
                            got = ctx.resolveName(n)
                        except Exception:  # noqa: BLE001
                            got = None
                        if got is not None and exp_g and exp_s and exp_g != exp_s and got.fullName() == exp_s:
                            res.v('C04:wrong-object:nested-class-sees-enclosing-class-scope', f'{label}: in {ctxname}, {n!r} resolves to {exp_s} (bound in the enclosing class), Python binds it to the module global {exp_g}', name=n, **witness())
                            continue
                    check(ctx, ctxname, n, _expected(info, n, varnames, bound_vars), None)
            # recurse into classes defined here
            for n, info in ns.items():
                if info.get('kind') == 'class' and 'ns' in info and depth < 3:
                    c = ctx.contents.get(n)
                    if isinstance(c, model.Class):
                        walk_ns(c, f'{ctxname}.{n}', info['ns'], rt['ns'], depth + 1, enclosing + ((ns,) if globals_ns is not None else ()))

        walk_ns(mod, full, rt['ns'], None, 0)
        # names the module does not bind but one of its packages does: Python binds nothing, so nothing may be resolved
        import builtins
        roots_names = {spec.modname(x.mid) for x in spec.mods if x.parent is None}
        # (modules with a star import are left out: what a star import binds at run time depends on how far the source module had got
        # when an import cycle is involved, i.e. on the order in which the interpreter happened to enter the cycle)
        pm = m.parent if not any(it.star_from for it in imports) else None
        while pm is not None:
            prt = dump['modules'].get(spec.modname(pm))
            for n, info in (prt or {'ns': {}})['ns'].items():
                if n in rt['ns'] or n.startswith('__') or hasattr(builtins, n) or n in roots_names or n in ('_contextlib', '_noop', '_ctx', '_i', 'TYPE_CHECKING'):
                    continue
                res.c('unbound_name_queries')
                try:
                    got = mod.resolveName(n)
                except Exception as e:  # noqa: BLE001
                    res.v(f'C04:resolve-raises:{type(e).__name__}', f'{label}: {full}.resolveName({n!r}) raised {e!r}', **witness())
                    continue
                if got is not None:
                    res.v('C04:unbound-name-resolves', f'{label}: in {full}, {n!r} is not bound (only its package {spec.modname(pm)} binds it) but resolves to {got.fullName()}', name=n, **witness())
            pm = spec.mods[pm].parent
    if nontrivial:
        res.distinct(label)
    res.sample({'project': label, 'modules': [spec.modname(m.mid) for m in spec.mods]})
