"""C20 -- options mean the same whether given on the command line or in a config file
(differential between the two front doors of the real parser + quoting round trips)."""
from __future__ import annotations

import contextlib
import io
import itertools
import json
import os
import shutil
import tempfile
import warnings
from typing import Any, Dict, List, Optional, Tuple

from vf import core

ID = 'C20'
LEVEL = 'exploration'
RULE = ('every option of options.get_parser()._actions (enumerated at run time) x representative/adversarial values x '
        '{pyproject.toml [tool.pydoctor], setup.cfg [tool:pydoctor], pydoctor.ini [pydoctor]} x value spellings the '
        'format documents (TOML basic/literal string, INI raw / Python-quoted / list literal / multi-line list); '
        'Options.from_args([flag...]) in an empty directory vs Options.from_args([]) in the same directory holding the '
        'file; plus CLI-over-file override, accumulation order, unknown keys, file precedence, and quoting round trips '
        'of all strings of length<=L over {a,space,\',",\\,n,newline,#,[,],%} (L=3 quick through files, L=4 pure; '
        'thorough L=4 / L=5). A case is non-trivial if the value is not the option default; distinct by (option, value, format, spelling).')
ASSUME = ['INI syntax is configparser with default options (so % is written %%), as the manual states',
          'options that cannot be given in a file (-c, -V, -h, positional SOURCEPATH) are compared through add-package or skipped',
          'a file is written in the format its name documents; which parser accepted it is observed by wrapping the parsers']
DECIDING = {'door_comparisons': 1500, 'options_covered': 38, 'quoting_roundtrips_file': 1000, 'quoting_pure': 10000,
            'override_cases': 30, 'unknown_key_cases': 10, 'append_cases': 10, 'accumulation_checks': 10}
CPU_S = 600
HANG_IS_VIOLATION = True

FORMATS = [('pyproject.toml', 'toml', 'tool.pydoctor'), ('setup.cfg', 'ini', 'tool:pydoctor'), ('pydoctor.ini', 'ini', 'pydoctor')]

STR_VALUES = ['value', 'two words', '', ' lead', 'trail ', 'a#b', 'a;b', 'a=b', 'a:b', '50%', '%(x)s', "it's", 'say "hi"', 'back\\slash',
              '[brackets]', 'é ü', 'x\ny', '  ', '#start', ';start', '[', "'", '"', '\t', 'a\\tb', '${x}', 'True', '1', 'None', 'null',
              '[a, b]', '"quoted"', "'quoted'", 'a\\', "'''", '\\n', 'a  b', 'http://x/y?z=1&w=%20', 'C:\\dir\\name', '{brace}', 'a,b', '=', ':']
INT_VALUES = ['0', '1', '7', '-1', '12', 'x', '1.5', '']
BOOL_FILE = ['true', 'True', 'yes', '1', 'false', 'no', '0', 'FALSE', 'maybe']
LIST_VALUES = [['a'], ['a', 'b', 'c'], ['b', 'a', 'b'], ['two words', 'x'], ['50%', '#c'], ["it's", 'say "hi"'], [], ['é'], ['a\\b', '[x]']]
PRIVACY_LISTS = [['HIDDEN:a.b'], ['PUBLIC:**', 'hidden:a.*', 'Private:a.b'], ['bogus:a'], ['HIDDEN:a:b'], ['PRIVATE: sp.ace ']]

QALPHA = ['a', ' ', "'", '"', '\\', 'n', '\n', '#', '[', ']', '%']


def _actions() -> List[Dict[str, Any]]:
    from pydoctor.options import get_parser
    p = get_parser()
    out = []
    for a in p._actions:
        keys = [k for k in p.get_possible_config_keys(a) if not k.startswith('-')]
        kind = type(a).__name__
        if kind in ('_HelpAction', '_VersionAction') or a.dest == 'config':
            continue
        out.append({'dest': a.dest, 'flags': list(a.option_strings), 'keys': keys, 'kind': kind,
                    'type': getattr(a.type, '__name__', None), 'choices': list(a.choices) if a.choices else None})
    return out


def cases(tier: str, seed: int) -> List[Dict[str, Any]]:
    core.setup_repo_path()
    out: List[Dict[str, Any]] = []
    acts = _actions()
    nvals = 8 if tier == 'quick' else 100
    r = core.rng(seed, 'C20')
    for a in acts:
        if not a['flags']:
            continue
        if a['kind'] == '_StoreAction':
            if a['choices']:
                vals = a['choices'] + ['nonsense', '']
            elif a['type'] == 'int':
                vals = INT_VALUES
            else:
                pool = list(STR_VALUES)
                if a['dest'] in ('systemclass', 'htmlwriter'):
                    pool = ['pydoctor.model.System', 'pydoctor.templatewriter.TemplateWriter', 'no.such.Class', 'value', '']
                if a['dest'] == 'buildtime':
                    pool = ['2020-01-02 03:04:05', 'garbage', '']
                r.shuffle(pool)
                vals = pool[:nvals] if len(pool) > nvals else pool
                for must in ('two words', '50%', "it's"):
                    if must in STR_VALUES and must not in vals and a['dest'] not in ('systemclass', 'htmlwriter', 'buildtime'):
                        vals.append(must)
            for v in vals:
                out.append({'part': 'A', 'act': a, 'value': v})
        elif a['kind'] in ('_StoreTrueAction', '_StoreFalseAction'):
            for v in BOOL_FILE:
                out.append({'part': 'A', 'act': a, 'value': v})
        elif a['kind'] == '_CountAction':
            for v in ['0', '1', '2', '3', 'x']:
                out.append({'part': 'A', 'act': a, 'value': v})
        elif a['kind'] == '_AppendAction':
            pool = PRIVACY_LISTS if a['dest'] == 'privacy' else LIST_VALUES
            for v in pool:
                out.append({'part': 'A', 'act': a, 'value': v})
    # override / unknown / precedence
    for a in acts:
        if a['kind'] == '_StoreAction' and a['flags'] and not a['choices'] and a['type'] != 'int' and a['dest'] not in ('systemclass', 'htmlwriter', 'buildtime'):
            out.append({'part': 'O', 'act': a, 'file': 'from file', 'cli': 'from cli'})
        if a['kind'] == '_AppendAction' and a['dest'] != 'privacy':
            out.append({'part': 'O', 'act': a, 'file': ['f1', 'f2'], 'cli': ['c1']})
    # names that are not configuration keys, including the letters of the short flags (-q, -v, -W, -c, -h ...), which the file
    # front door does not offer, and destination names that differ from the option name
    from pydoctor.options import get_parser
    p = get_parser()
    known = {k for a in p._actions for k in p.get_possible_config_keys(a)}
    short = sorted({fl[1:] for a in p._actions for fl in a.option_strings if fl.startswith('-') and not fl.startswith('--')} - known)
    dests = sorted({a.dest for a in p._actions if a.dest and a.dest not in known and a.dest != 'help'})[:6]
    for key in ['nosuch', 'projectname', 'project_name', 'Project-Name', 'verbosity', 'x y', 'sourcepath', 'no-such-option', 'docformat2', 'é'] + short + dests:
        out.append({'part': 'U', 'key': key})
    out.append({'part': 'P'})
    # quoting
    Lfile = 3 if tier == 'quick' else 4
    Lpure = 4 if tier == 'quick' else 5
    strs = [''.join(t) for n in range(0, Lfile + 1) for t in itertools.product(QALPHA, repeat=n)]
    for lo in range(0, len(strs), 150):
        out.append({'part': 'QF', 'L': Lfile, 'lo': lo, 'hi': lo + 150})
    npure = sum(len(QALPHA) ** n for n in range(0, Lpure + 1))
    for lo in range(0, npure, 20000):
        out.append({'part': 'QP', 'L': Lpure, 'lo': lo, 'hi': lo + 20000})
    nrand = 2000 if tier == 'quick' else 50000
    for k in range(0, nrand, 500):
        out.append({'part': 'QR', 'seed': seed, 'k': k, 'n': 500})
    return out


# ---------------------------------------------------------------------------------------------------
_accepted: List[str] = []


def worker_init() -> None:
    from pydoctor import _configparser as cp
    for cls, name in ((cp.TomlConfigParser, 'toml'), (cp.IniConfigParser, 'ini')):
        orig = cls.parse

        def parse(self: Any, stream: Any, _orig: Any = orig, _name: str = name) -> Any:
            r = _orig(self, stream)
            _accepted.append(_name)
            return r
        cls.parse = parse  # type: ignore[method-assign]


def _toml_str(s: str, literal: bool = False) -> str:
    if literal:
        return "'" + s + "'"
    out = '"'
    for ch in s:
        if ch == '"':
            out += '\\"'
        elif ch == '\\':
            out += '\\\\'
        elif ch == '\n':
            out += '\\n'
        elif ch == '\t':
            out += '\\t'
        elif ch == '\r':
            out += '\\r'
        elif ord(ch) < 0x20 or ord(ch) == 0x7f:
            out += '\\u%04x' % ord(ch)
        else:
            out += ch
    return out + '"'


def _ini_escape(text: str) -> str:
    return text.replace('%', '%%')


def _ini_raw_ok(s: str) -> bool:
    from pydoctor._configparser import is_quoted
    return bool(s) and s == s.strip() and '\n' not in s and '\r' not in s and not (s.startswith('[') and s.endswith(']')) \
        and not is_quoted(s) and not any(ord(c) < 0x20 for c in s)


def _file_text(fmt: str, section: str, items: List[Tuple[str, Any, str]]) -> str:
    """items: (key, value, spelling)"""
    lines = [f'[{section}]']
    for key, v, sp in items:
        if fmt == 'toml':
            if sp == 'bare':
                lines.append(f'{key} = {v}')
            elif isinstance(v, list):
                lines.append(f'{key} = [' + ', '.join(_toml_str(x) for x in v) + ']')
            else:
                lines.append(f'{key} = ' + _toml_str(v, literal=(sp == 'literal')))
        else:
            if sp == 'bare' or sp == 'raw':
                lines.append(f'{key} = {_ini_escape(str(v))}')
            elif sp == 'pyquoted':
                lines.append(f'{key} = {_ini_escape(repr(v))}')
            elif sp == 'dquoted':
                lines.append(f'{key} = {_ini_escape(json.dumps(v, ensure_ascii=False))}')
            elif sp == 'listliteral':
                lines.append(f'{key} = {_ini_escape(repr(list(v)))}')
            elif sp == 'multiline':
                lines.append(f'{key} =')
                for x in v:
                    lines.append('    ' + _ini_escape(x))
    return '\n'.join(lines) + '\n'


def _spellings(fmt: str, kind: str, v: Any) -> List[str]:
    if kind in ('bool', 'int', 'count'):
        return ['bare'] + (['basic'] if fmt == 'toml' else ['pyquoted'])
    if kind == 'list':
        if fmt == 'toml':
            return ['array']
        sp = ['listliteral']
        # configparser (default options) treats an indented line starting with '#' or ';' as a comment
        if v and all(_ini_raw_ok(x) and x[0] not in '#;' for x in v):
            sp.append('multiline')
        return sp
    # string
    if fmt == 'toml':
        sp = ['basic']
        if "'" not in v and '\n' not in v and not any((ord(c) < 0x20 and c != '\t') or ord(c) == 0x7f for c in v):
            sp.append('literal')
        return sp
    sp = ['pyquoted']
    if _ini_raw_ok(v):
        sp.append('raw')
    return sp


def _outcome(argv: List[str], cwd: str) -> Tuple[str, Any, List[str]]:
    from pydoctor.options import Options
    import attr
    old = os.getcwd()
    os.chdir(cwd)
    err = io.StringIO()
    try:
        with warnings.catch_warnings(record=True) as ws, contextlib.redirect_stderr(err), contextlib.redirect_stdout(io.StringIO()):
            warnings.simplefilter('always')
            try:
                o = Options.from_args(argv)
            except SystemExit as e:
                return 'exit', (e.code, err.getvalue()[-300:]), [str(w.message) for w in ws]
            except Exception as e:  # noqa: BLE001
                return 'raise', f'{type(e).__name__}: {e}', [str(w.message) for w in ws]
        d = {f.name: repr(getattr(o, f.name)) for f in attr.fields(type(o))}
        return 'ok', d, [str(w.message) for w in ws]
    finally:
        os.chdir(old)


def _raw(argv: List[str], cwd: str, dest: str) -> Any:
    from pydoctor.options import Options
    old = os.getcwd()
    os.chdir(cwd)
    try:
        with warnings.catch_warnings(), contextlib.redirect_stderr(io.StringIO()), contextlib.redirect_stdout(io.StringIO()):
            warnings.simplefilter('ignore')
            try:
                return getattr(Options.from_args(argv), dest, None)
            except (SystemExit, Exception):  # noqa: BLE001
                return None
    finally:
        os.chdir(old)


def _same(a: Tuple[str, Any, List[str]], b: Tuple[str, Any, List[str]]) -> Optional[str]:
    if a[0] != b[0]:
        return f'{a[0]} {a[1] if a[0] != "ok" else ""} vs {b[0]} {b[1] if b[0] != "ok" else ""}'
    if a[0] == 'ok':
        diff = {k: (a[1][k], b[1][k]) for k in a[1] if a[1][k] != b[1].get(k)}
        if diff:
            return f'fields differ: {diff}'
    return None


class _Dir:
    def __enter__(self) -> str:
        self.d = tempfile.mkdtemp(prefix='vf20-')
        return self.d

    def __exit__(self, *a: Any) -> None:
        shutil.rmtree(self.d, ignore_errors=True)


def _write(d: str, fname: str, text: str) -> None:
    with open(os.path.join(d, fname), 'w', encoding='utf-8', newline='\n') as f:
        f.write(text)


def _clear(d: str) -> None:
    for f in os.listdir(d):
        os.remove(os.path.join(d, f))


def _cli_for(act: Dict[str, Any], v: Any) -> Optional[List[str]]:
    flag = act['flags'][0] if act['flags'][0].startswith('--') else act['flags'][-1]
    long = [f for f in act['flags'] if f.startswith('--')][0]
    k = act['kind']
    if k == '_StoreAction':
        return [f'{long}={v}']
    if k in ('_StoreTrueAction', '_StoreFalseAction'):
        lv = v.lower()
        if lv in ('true', 'yes', '1'):
            return [long]
        if lv in ('false', 'no', '0'):
            return []
        return None     # invalid boolean text: the file door must refuse it
    if k == '_CountAction':
        try:
            return [long] * int(v)
        except ValueError:
            return None
    if k == '_AppendAction':
        return [f'{long}={x}' for x in v]
    return None


def _run_A(case: Dict[str, Any], res: core.Res) -> None:
    act, v = case['act'], case['value']
    kind = {'_StoreAction': 'int' if act['type'] == 'int' else 'str', '_StoreTrueAction': 'bool', '_StoreFalseAction': 'bool',
            '_CountAction': 'count', '_AppendAction': 'list'}[act['kind']]
    cli = _cli_for(act, v)
    res.setadd('options', act['dest'])
    with _Dir() as d:
        ref = _outcome(cli, d) if cli is not None else None
        if kind == 'list' and ref is not None and ref[0] == 'ok' and len(v) >= 2 and act['dest'] in ref[1]:
            # "repeated options accumulate in order": what the whole list yields is what its elements yield one by one, concatenated
            singles = [_raw(_cli_for(act, [x]) or [], d, act['dest']) for x in v]
            whole = _raw(cli, d, act['dest'])
            if all(isinstance(x, list) for x in singles + [whole]):
                res.c('accumulation_checks')
                exp = [y for x in singles for y in x]
                if whole != exp:
                    res.v('C20:repeated-option-does-not-accumulate-in-order', f"{act['dest']}: {cli} yields {whole!r}; given one at a time the values yield {exp!r}",
                          option=act['dest'], value=v, cli=cli)
        for fname, fmt, section in FORMATS:
            for key in act['keys'][:1]:
                for sp in _spellings(fmt, kind, v):
                    if kind in ('bool', 'int', 'count') and sp == 'bare' and fmt == 'toml':
                        # a bare TOML value must be valid TOML: booleans lower-case, integers
                        if kind == 'bool' and v not in ('true', 'false'):
                            continue
                        if kind in ('int', 'count') and not v.lstrip('-').isdigit():
                            continue
                    if kind in ('bool', 'int', 'count') and sp == 'bare' and fmt == 'ini' and v == '':
                        continue
                    _clear(d)
                    del _accepted[:]
                    text = _file_text(fmt, section, [(key, v, sp)])
                    _write(d, fname, text)
                    got = _outcome([], d)
                    res.c('door_comparisons')
                    res.c('evaluations')
                    res.distinct(f"{act['dest']}|{v!r}|{fname}|{sp}")
                    w = {'option': act['dest'], 'value': v, 'file': fname, 'spelling': sp, 'file_text': text, 'cli': cli,
                         'accepted_by': list(_accepted)}
                    if ref is None:
                        # invalid value for this kind: both doors must refuse; the file door must not apply or crash
                        # (a value the command line cannot express: outside the statement; what happens is only counted)
                        res.c('no_cli_equivalent_' + got[0])
                        continue
                    if got[0] == 'raise':
                        res.v(f'C20:file-raises:{got[1].split(":")[0]}', f"{fname}: {key} = {v!r} ({sp}) raised {got[1]}; command line gives {ref[0]}", **w)
                        continue
                    why = _same(ref, got)
                    if why:
                        key_ = _classify(act, kind, v, fmt, fname, sp, list(_accepted), ref, got, text)
                        res.v(key_, f"{act['dest']}: command line {cli} and {fname} `{text.splitlines()[1][:120]}` ({sp}) disagree: {why}"[:900], **w)
    res.sample({'option': act['dest'], 'value': v, 'cli': cli})


def _empty(d: str) -> str:
    _clear(d)
    return d


def _toml_lib_defect(text: str) -> bool:
    """True when the third-party `toml` parser pydoctor delegates to disagrees with the stdlib TOML parser on valid TOML."""
    import tomllib
    import toml
    try:
        ref = tomllib.loads(text)
    except Exception:  # noqa: BLE001
        return False
    try:
        got = toml.loads(text)
    except Exception:  # noqa: BLE001
        return True
    return bool(got != ref)


def _classify(act: Dict[str, Any], kind: str, v: Any, fmt: str, fname: str, sp: str, accepted: List[str], ref: Any, got: Any,
              text: str = '') -> str:
    if fmt == 'ini' and accepted[:1] == ['toml']:
        return 'C20:ini-file-read-by-toml-parser'
    if fmt == 'toml' and text and _toml_lib_defect(text):
        return 'C20:toml-library-misparses-valid-toml'
    if ref[0] != got[0]:
        return f'C20:{kind}-{fmt}-{sp}:{ref[0]}-vs-{got[0]}'
    return f'C20:{kind}-{fmt}-{sp}:value-differs'


def _run_O(case: Dict[str, Any], res: core.Res) -> None:
    act = case['act']
    long = [f for f in act['flags'] if f.startswith('--')][0]
    with _Dir() as d:
        for fname, fmt, section in FORMATS:
            _clear(d)
            if isinstance(case['file'], list):
                cli = [f'{long}={x}' for x in case['cli']]
                ref = _outcome(cli, d)
                _write(d, fname, _file_text(fmt, section, [(act['keys'][0], case['file'], 'array' if fmt == 'toml' else 'listliteral')]))
                got = _outcome(cli, d)
                res.c('append_cases')
            else:
                cli = [f'{long}={case["cli"]}']
                ref = _outcome(cli, d)
                _write(d, fname, _file_text(fmt, section, [(act['keys'][0], case['file'], 'basic' if fmt == 'toml' else 'raw')]))
                got = _outcome(cli, d)
            res.c('override_cases')
            res.c('evaluations')
            why = _same(ref, got)
            if why:
                res.v('C20:cli-does-not-override-file', f"{act['dest']}: {cli} with {fname} setting {case['file']!r}: {why}"[:700], option=act['dest'], file=fname)
            # and the file alone is applied
            alone = _outcome([], d)
            if alone[0] == 'ok' and ref[0] == 'ok' and alone[1] == ref[1]:
                res.v('C20:file-value-not-applied', f"{act['dest']}: {fname} setting {case['file']!r} has no effect", option=act['dest'], file=fname)
    res.sample({'override': act['dest']})


def _run_U(case: Dict[str, Any], res: core.Res) -> None:
    key = case['key']
    with _Dir() as d:
        for fname, fmt, section in FORMATS:
            _clear(d)
            if fmt == 'ini' and key.lower() != key:
                continue        # INI keys are case-insensitive (configparser default): 'Project-Name' is a known key there
            if fmt == 'toml':
                k = key if all(c.isalnum() or c in '-_' for c in key) else _toml_str(key)
            else:
                k = key
            _write(d, fname, _file_text(fmt, section, [('project-version', '9.9', 'basic' if fmt == 'toml' else 'raw')]))
            ref = _outcome([], d)
            # the unknown key is given every kind of value its file format can express
            variants = [('zzz', 'basic'), (['a', 'b'], 'array'), ('3', 'bare'), ('true', 'bare'), ('{ level = 3, name = "x" }', 'bare'), ('[[1, 2], [3]]', 'bare')] if fmt == 'toml' \
                else [('zzz', 'raw'), (['a', 'b'], 'listliteral'), ('3', 'raw')]       # (an empty value means "not set" in an INI file: the key is then not read at all)
            for val, sp in variants:
                text = _file_text(fmt, section, [('project-version', '9.9', 'basic' if fmt == 'toml' else 'raw'), (k, val, sp)])
                _write(d, fname, text)
                got = _outcome([], d)
                res.c('unknown_key_cases')
                res.c('evaluations')
                if got[0] != 'ok':
                    res.v('C20:unknown-key-aborts', f'{fname}: unknown key {key!r} = {val!r} gives {got[0]} {got[1]}', cfgkey=key, file=fname, file_text=text)
                    continue
                why = _same(ref, got)
                if why:
                    res.v('C20:unknown-key-applied', f'{fname}: unknown key {key!r} = {val!r} changed the configuration: {why}', cfgkey=key, file=fname, file_text=text)
                if not any('No such config option' in w for w in got[2]):
                    res.v('C20:unknown-key-not-warned', f'{fname}: unknown key {key!r} = {val!r} produced no "No such config option" warning (warnings: {got[2]})', cfgkey=key, file=fname, file_text=text)
    res.sample({'unknown_key': key})


def _run_P(case: Dict[str, Any], res: core.Res) -> None:
    # documented precedence: pydoctor.ini > pyproject.toml > setup.cfg; command line over all
    with _Dir() as d:
        for present in itertools.product([False, True], repeat=3):
            if not any(present):
                continue
            _clear(d)
            for (fname, fmt, section), on in zip(FORMATS, present):
                if on:
                    _write(d, fname, _file_text(fmt, section, [('project-name', 'from-' + fname, 'basic' if fmt == 'toml' else 'raw')]))
            got = _outcome([], d)
            res.c('precedence_cases')
            res.c('evaluations')
            expect = 'from-pydoctor.ini' if present[2] else ('from-pyproject.toml' if present[0] else 'from-setup.cfg')
            if got[0] != 'ok':
                res.v('C20:several-files-abort', f'files {present}: {got}', present=list(present))
            elif got[1]['projectname'] != repr(expect):
                # precedence *among files* is not part of the statement (only command line over file): counted, not judged
                res.c('file_precedence_differs_from_manual')
            got2 = _outcome(['--project-name=cli'], d)
            if got2[0] != 'ok' or got2[1]['projectname'] != repr('cli'):
                res.v('C20:cli-does-not-override-file', f'--project-name=cli with files {present}: {got2[1]["projectname"] if got2[0] == "ok" else got2}', present=list(present))
    res.sample({'precedence': 'all subsets of the three files'})


def _quote_file_roundtrip(res: core.Res, d: str, s: str) -> None:
    """s written through each format's documented quoting rules as project-name and as an element of a list option"""
    for fname, fmt, section in FORMATS:
        for sp in _spellings(fmt, 'str', s):
            _clear(d)
            del _accepted[:]
            text = _file_text(fmt, section, [('project-name', s, sp), ('intersphinx', [s, 'z'], 'array' if fmt == 'toml' else 'listliteral')])
            _write(d, fname, text)
            got = _outcome([], d)
            res.c('quoting_roundtrips_file')
            w = {'string': s, 'file': fname, 'spelling': sp, 'file_text': text, 'accepted_by': list(_accepted)}
            if got[0] != 'ok':
                key = 'C20:ini-file-read-by-toml-parser' if (fmt == 'ini' and _accepted[:1] == ['toml']) else f'C20:quoting-{fmt}-{sp}:{got[0]}'
                if fmt == 'toml' and _toml_lib_defect(text):
                    key = 'C20:toml-library-misparses-valid-toml'
                res.v(key, f'{fname}: {s!r} written as `{text.splitlines()[1][:100]}` gives {got[0]} {got[1]}'[:600], **w)
                continue
            exp_name = repr(s)
            if s == '' and sp == 'raw':
                continue
            if got[1]['projectname'] != exp_name or got[1]['intersphinx'] != repr([s, 'z']):
                key = 'C20:ini-file-read-by-toml-parser' if (fmt == 'ini' and _accepted[:1] == ['toml']) else f'C20:quoting-{fmt}-{sp}:value-differs'
                if fmt == 'toml' and _toml_lib_defect(text):
                    key = 'C20:toml-library-misparses-valid-toml'
                res.v(key, f'{fname}: {s!r} written as `{text.splitlines()[1][:100]}` is read back as project-name={got[1]["projectname"]} intersphinx={got[1]["intersphinx"]}'[:600], **w)


def _run_QF(case: Dict[str, Any], res: core.Res) -> None:
    strs = [''.join(t) for n in range(0, case['L'] + 1) for t in itertools.product(QALPHA, repeat=n)][case['lo']:case['hi']]
    with _Dir() as d:
        for s in strs:
            _quote_file_roundtrip(res, d, s)
            res.c('evaluations')
            res.distinct('QF:' + s)
    res.sample({'quoting_string': strs[len(strs) // 2] if strs else ''})


def _run_QP(case: Dict[str, Any], res: core.Res) -> None:
    from pydoctor._configparser import unquote_str, is_quoted
    from ast import literal_eval
    it = (''.join(t) for n in range(0, case['L'] + 1) for t in itertools.product(QALPHA, repeat=n))
    for s in itertools.islice(it, case['lo'], case['hi']):
        res.c('quoting_pure')
        # (1) repr round trip
        for q in (repr(s), json.dumps(s) if '\n' not in s else repr(s)):
            try:
                back = unquote_str(q)
            except Exception as e:  # noqa: BLE001
                res.v('C20:unquote-raises-on-repr', f'unquote_str({q!r}) raised {e!r}', text=q)
                continue
            if back != s:
                res.v('C20:unquote-repr-differs', f'unquote_str({q!r}) = {back!r}, expected {s!r}', text=q)
        # (2) any text detected as quoted must evaluate (unquote_str documents ValueError as "a bug in the regex")
        try:
            q = is_quoted(s)
        except Exception as e:  # noqa: BLE001
            res.v('C20:is-quoted-raises', f'is_quoted({s!r}) raised {e!r}', text=s)
            continue
        if q:
            try:
                v = literal_eval(s)
                ok = isinstance(v, str)
            except Exception:  # noqa: BLE001
                ok = False
            if not ok:
                # unquote_str then raises ValueError, which IniConfigParser turns into a reported usage error: the
                # text was not written per the quoting rules, so the statement does not cover it. Counted only.
                res.c('is_quoted_true_but_not_a_literal')
    res.c('evaluations', case['hi'] - case['lo'])


def _run_QR(case: Dict[str, Any], res: core.Res) -> None:
    r = core.rng(case['seed'], 'C20', 'QR', case['k'])
    pools = [QALPHA, list('abc XYZ'), ['é', 'ß', '漢', '\u200f', '\x7f', '\x1f', '\ud7ff', '𝔘', '\u2028'], list('{}$&|<>*?!~`^@,;:=')]
    with _Dir() as d:
        for i in range(case['n']):
            n = r.randint(0, 14)
            s = ''.join(r.choice(r.choice(pools)) for _ in range(n))
            if i % 4 == 0:
                _quote_file_roundtrip(res, d, s)
            from pydoctor._configparser import unquote_str
            res.c('quoting_pure')
            try:
                if unquote_str(repr(s)) != s:
                    res.v('C20:unquote-repr-differs', f'unquote_str(repr({s!r})) differs', text=repr(s))
            except Exception as e:  # noqa: BLE001
                res.v('C20:unquote-raises-on-repr', f'unquote_str({repr(s)!r}) raised {e!r}', text=repr(s))
            res.c('evaluations')
            res.distinct('QR:' + s)
    res.sample({'random_string': s})


def run_case(case: Dict[str, Any]) -> core.Res:
    res = core.Res()
    {'A': _run_A, 'O': _run_O, 'U': _run_U, 'P': _run_P, 'QF': _run_QF, 'QP': _run_QP, 'QR': _run_QR}[case['part']](case, res)
    return res


def finish(agg: Dict[str, Any], tier: str, seed: int) -> None:
    agg['cnt']['options_covered'] = len(agg['sets'].get('options', ()))
    agg['exhaustive'] = True
    agg['extra'] = {'exhaustive_part': 'all parser actions; quoting strings up to the length bound', 'options': sorted(agg['sets'].get('options', ()))}
