"""Shared by C11 and C12: render generated/real projects with the real driver, crawl the output, join with the live model."""
from __future__ import annotations

import shutil
import tempfile
import traceback
from pathlib import Path
from typing import Any, Dict, List, Optional, Tuple
from urllib.parse import unquote

from vf import core
from vf.gen import project, projrun, render
from vf.mon import crawl
from vf.ref import urls

THEMES = ['classic', 'base', 'readthedocs']


def option_sets(r: Any) -> List[str]:
    args = [f'--theme={r.choice(THEMES)}']
    k = r.random()
    if k < .2:
        args.append('--no-sidebar')
    else:
        args.append(f'--sidebar-expand-depth={r.randint(1, 3)}')
        args.append(f'--sidebar-toc-depth={r.randint(0, 3)}')
    if r.random() < .5:
        args.append('--cls-member-order=source')
    if r.random() < .5:
        args.append('--mod-member-order=source')
    if r.random() < .3:
        args.append('--docformat=restructuredtext')
    return args


class Run:
    def __init__(self, roots: List[Path], args: List[str]) -> None:
        self.out = tempfile.mkdtemp(prefix='vfout-')
        self.error: Optional[str] = None
        self.system: Any = None
        try:
            self.system, self.code = render.render(roots, self.out, args)
            self.output = crawl.Output(self.out)
        except BaseException as e:  # noqa: BLE001
            if isinstance(e, (KeyboardInterrupt, core.CpuTimeout)):
                raise
            self.error = f'{type(e).__name__}: {e}\n' + traceback.format_exc()[-1500:]

    def close(self) -> None:
        shutil.rmtree(self.out, ignore_errors=True)

    # url -> objects (all registered objects, visible or not)
    def url_index(self) -> Dict[str, List[Any]]:
        idx: Dict[str, List[Any]] = {}
        for o in self.system.allobjects.values():
            try:
                u = unquote(o.url)
            except Exception:  # noqa: BLE001
                continue
            idx.setdefault(u, []).append(o)
        return idx


def generated_runs(case: Dict[str, Any], tag: str):
    """yields (label, spec, Run, args) for a batch of generated projects"""
    specs = [project.generate(core.rng(tag, case['seed'], case['k'] + j), project.Features.rendering()) for j in range(case['n'])]
    with projrun.TmpProjects(specs, seed=(tag, case['seed'], case['k'])) as tp:
        for j, spec in enumerate(specs):
            label = f"{tag}:{case['seed']}:{case['k'] + j}"
            r = core.rng(tag, 'opts', label)
            live_names: List[str] = []
            for v in range(case.get('variants', 1)):
                args = option_sets(r) + [f'--privacy={p}' for p in (spec.privacy if v == 0 else _other_rules(r, spec))]
                run = Run(tp.roots[j], args)
                try:
                    if run.system is not None:
                        from pydoctor import model
                        live_names = [o.fullName() for o in run.system.allobjects.values() if isinstance(o, (model.Module, model.Class)) and ' ' not in o.fullName()]
                    yield f'{label}/v{v}', spec, run, args, project.sources(spec, seed=((tag, case['seed'], case['k']), j))
                finally:
                    run.close()
            if case.get('subjects') and live_names:
                # a partial build: only the pages of the named objects are written (--html-subject); objects nested in
                # hidden containers are named on purpose
                names = sorted(live_names)
                hidden_roots = [p.split(':', 1)[1] for p in spec.privacy if p.startswith('HIDDEN:') and '*' not in p]
                inside = [n for n in names if any(n.startswith(h + '.') for h in hidden_roots)]
                picks = (r.sample(inside, min(len(inside), 2)) if inside else []) + r.sample(names, min(len(names), 2))
                args = option_sets(r) + [f'--privacy={p}' for p in spec.privacy] + [f'--html-subject={n}' for n in dict.fromkeys(picks)]
                run = Run(tp.roots[j], args)
                try:
                    yield f'{label}/subject', spec, run, args, project.sources(spec, seed=((tag, case['seed'], case['k']), j))
                finally:
                    run.close()


def _other_rules(r: Any, spec: project.Spec) -> List[str]:
    rules = list(spec.privacy)
    r.shuffle(rules)
    uids = list(spec.defs)
    for _ in range(r.randint(1, 3)):
        uid = r.choice(uids)
        rules.append(f"{r.choice(['HIDDEN', 'PRIVATE', 'PUBLIC'])}:{spec.final_fullname(uid)}")
    if r.random() < .4:
        rules.append(r.choice(['PRIVATE:**', 'PUBLIC:**._*', 'HIDDEN:**._*', 'PUBLIC:**']))
    if r.random() < .5:
        # several exact rules for one object, with different levels: the one given last decides
        full = spec.final_fullname(r.choice(uids))
        lv = r.sample(['HIDDEN', 'PRIVATE', 'PUBLIC'], 2)
        rules.insert(r.randint(0, len(rules)), f'{lv[0]}:{full}')
        rules.append(f'{lv[1]}:{full}')
    if len(rules) >= 2 and r.random() < .5:
        # a rule repeated after rules that contradict it
        rules.append(rules[r.randrange(len(rules) - 1)])
    return rules
