"""C18 -- equal inputs give byte-identical output (differential between separate processes)."""
from __future__ import annotations

import hashlib
import os
import shutil
import subprocess
import tempfile
from pathlib import Path
from typing import Any, Dict, List, Optional, Tuple

from vf import core
from vf.gen import project

ID = 'C18'
LEVEL = 'exploration'
RULE = ('generated projects and real packages x {one root, several roots} x {with, without --project-name} x docformat; each '
        'is rendered by `python <shim> ...` (the real driver.main in a fresh process) under PYTHONHASHSEED in {0,1,2,3,random}, '
        'directory listing order in {normal, reverse, shuffled} (os.listdir/os.scandir/Path.iterdir reordered in the child), '
        'and into a fresh vs. an already populated output directory, under varied sidebar/theme/member-order options; build time fixed by --buildtime or SOURCE_DATE_EPOCH (0, 1, 86399, 2020, 2100) and required to be the one the pages carry. All '
        'output trees of one project must have one digest. Distinct: (project, configuration); non-trivial: project has >=2 '
        'modules.')
ASSUME = ['the order of the roots on the command line is part of the input and is not varied', 'intersphinx is off; no --html-viewsource-base',
          'the time zone of the machine (TZ) is varied between runs as well: with the build time given, it is not an input']
DECIDING = {'runs': 60, 'buildtime_checks': 60, 'configurations': 6, 'projects': 8, 'files_compared': 1000, 'multi_root_projects': 2, 'guessed_name_projects': 2}
CPU_S = 1200
SHIM = str(Path(__file__).resolve().parent.parent / 'ref' / 'run_pydoctor_shim.py')


def cases(tier: str, seed: int) -> List[Dict[str, Any]]:
    out: List[Dict[str, Any]] = []
    n = 12 if tier == 'quick' else 150
    for k in range(n):
        out.append({'part': 'G', 'seed': seed, 'k': k, 'configs': 6 if tier == 'quick' else 12})
    # directed: several roots, no project name
    for k in range(3 if tier == 'quick' else 12):
        out.append({'part': 'M', 'seed': seed, 'k': k, 'configs': 6 if tier == 'quick' else 12})
    out.append({'part': 'D', 'configs': 6 if tier == 'quick' else 12})
    from vf.gen import corpus
    r = core.rng(seed, 'C18', 'corpus')
    for p in corpus.pick(r, 2 if tier == 'quick' else 10, max_bytes=200_000, min_files=2):
        out.append({'part': 'P', 'path': p, 'configs': 4 if tier == 'quick' else 8})
    return out


def _digest_tree(d: str) -> Tuple[str, Dict[str, str]]:
    files: Dict[str, str] = {}
    for root, dirs, fs in os.walk(d):
        dirs.sort()
        for f in sorted(fs):
            p = os.path.join(root, f)
            rel = os.path.relpath(p, d)
            if os.path.islink(p):
                files[rel] = 'link:' + os.readlink(p)
            else:
                with open(p, 'rb') as fh:
                    files[rel] = hashlib.sha1(fh.read()).hexdigest()
    h = hashlib.sha1(repr(sorted(files.items())).encode()).hexdigest()
    return h, files


EPOCHS = [1577836800, 0, 86399, 4102444800, 1]


TZS = ['UTC0', 'EAST-12', 'WEST+11', 'EST5EDT']


def _run(argv: List[str], outdir: str, hashseed: str, listing: str, epoch: Any, tz: str = 'UTC0') -> Tuple[int, str]:
    env = {k: v for k, v in os.environ.items() if k not in ('PYTHONHASHSEED', 'SOURCE_DATE_EPOCH', 'TZ')}
    env['PYTHONHASHSEED'] = hashseed
    # the build time is given (an epoch is a point in time, --buildtime a literal text): the machine's time zone is not an input
    env['TZ'] = tz
    env['VF_LISTING'] = listing
    env['PYTHONPATH'] = core.repo_dir()
    env['PYTHONDONTWRITEBYTECODE'] = '1'
    # epoch: False -> --buildtime; True -> the usual SOURCE_DATE_EPOCH; an int -> that SOURCE_DATE_EPOCH (0 is a valid one)
    if epoch is True:
        env['SOURCE_DATE_EPOCH'] = '1577836800'
    elif epoch is not False:
        env['SOURCE_DATE_EPOCH'] = str(epoch)
    args = [core.PY, SHIM, '--html-output', outdir, '-q', '-q'] + argv
    if epoch is False:
        args += ['--buildtime=2020-01-01 00:00:00']
    p = subprocess.run(args, env=env, capture_output=True, text=True, timeout=600, cwd=tempfile.gettempdir())
    return p.returncode, (p.stderr or '')[-600:]


CONFIGS = [('0', 'normal', 'fresh'), ('1', 'normal', 'fresh'), ('2', 'reverse', 'fresh'), ('random', 'shuffle:1', 'fresh'), ('3', 'normal', 'reused'),
           ('0', 'shuffle:2', 'reused'), ('random', 'reverse', 'fresh'), ('1', 'shuffle:3', 'fresh'), ('2', 'normal', 'reused'), ('3', 'reverse', 'reused'),
           ('random', 'normal', 'fresh'), ('0', 'reverse', 'fresh')]


def _judge(res: core.Res, label: str, roots: List[str], extra: List[str], nconfigs: int, w: Dict[str, Any], epoch: bool) -> None:
    base = tempfile.mkdtemp(prefix='vf18-')
    try:
        digests: Dict[str, Tuple[Any, Dict[str, str]]] = {}
        argv = extra + roots
        for ci, (hs, listing, reuse) in enumerate(CONFIGS[:nconfigs]):
            out = os.path.join(base, f'out{ci}')
            if reuse == 'reused':
                # the result of a previous run is already there: of the same sources, documented under another (longer) project name, so that
                # every page of this run is shorter than the file it replaces
                rc0, err0 = _run(argv + ['--project-name=the-previous-run-documented-the-project-under-a-much-longer-name'], out, '0', 'normal', epoch)
            rc, err = _run(argv, out, hs, listing, epoch, TZS[ci % len(TZS)])
            res.c('runs')
            res.setadd('configurations', f'{hs}/{listing}/{reuse}')
            if rc not in (0, 2, 3):
                res.v(f'C18:run-failed', f'{label}: exit {rc} under hashseed={hs} listing={listing} {reuse}: {err[-300:]}', config=[hs, listing, reuse], **w)
                continue
            h, files = _digest_tree(out)
            res.c('files_compared', len(files))
            # the build time that was asked for is the one the pages carry
            import datetime
            ts = 1577836800 if (epoch is True or epoch is False) else int(epoch)
            stamp = datetime.datetime.fromtimestamp(ts, datetime.timezone.utc).strftime('%Y-%m-%d %H:%M:%S')
            try:
                idx = open(os.path.join(out, 'index.html'), errors='replace').read()
                res.c('buildtime_checks')
                if stamp not in idx:
                    res.v('C18:buildtime-not-the-requested-one', f'{label}: index.html does not carry the requested build time {stamp} (epoch setting {epoch!r})', config=[hs, listing, reuse], **w)
            except OSError:
                pass
            digests.setdefault(h, ((hs, listing, reuse), files))
            res.distinct(f'{label}|{hs}|{listing}|{reuse}')
        res.c('projects')
        res.c('evaluations')
        if len(digests) > 1:
            items = list(digests.values())
            (c0, f0), (c1, f1) = items[0], items[1]
            differing = sorted(k for k in set(f0) | set(f1) if f0.get(k) != f1.get(k))
            first = differing[0] if differing else '?'
            detail = ''
            try:
                # first differing line of the first differing file
                ia = [ci for ci, cfg in enumerate(CONFIGS[:nconfigs]) if cfg == c0][0]
                ib = [ci for ci, cfg in enumerate(CONFIGS[:nconfigs]) if cfg == c1][0]
                a = open(os.path.join(base, f'out{ia}', first), errors='replace').read().splitlines()
                b = open(os.path.join(base, f'out{ib}', first), errors='replace').read().splitlines()
                for la, lb in zip(a, b):
                    if la != lb:
                        detail = f'{la.strip()[:160]!r} vs {lb.strip()[:160]!r}'
                        break
            except Exception:  # noqa: BLE001
                pass
            varied = [name for name, i in (('hashseed', 0), ('listing', 1), ('reuse', 2)) if c0[i] != c1[i]]
            key = _classify(first, detail, varied, extra)
            res.v(key, f'{label}: {len(digests)} distinct outputs; configurations {c0} and {c1} differ in {len(differing)} files, first {first!r}: {detail}'[:900],
                  configs=[list(c0), list(c1)], files=differing[:10], **w)
    finally:
        shutil.rmtree(base, ignore_errors=True)


def _classify(first: str, detail: str, varied: List[str], extra: List[str]) -> str:
    if not any(a.startswith('--project-name') for a in extra) and ('/' in detail) and ('project' in detail.lower() or 'title' in detail.lower() or 'API Documentation' in detail or 'Project:' in detail):
        return 'C18:guessed-project-name-order'
    kind = first.split('.')[-1] if '.' in first else first
    page = first if first in ('index.html', 'moduleIndex.html', 'classIndex.html', 'nameIndex.html', 'undoccedSummary.html', 'all-documents.html',
                              'searchindex.json', 'fullsearchindex.json', 'objects.inv') else f'*.{kind}'
    return f'C18:differs:{page}:{"+".join(varied) or "same-config"}'


DIRECTED = {
    'dpk/__init__.py': '"""Package re-exporting many names through a star import."""\nfrom ._impl import *\nfrom .Queue import qa\nfrom .queue import qb\n'
                       '__all__ = ["alpha", "beta", "gamma", "Delta", "Epsilon", "zeta", "eta", "Theta", "qa", "qb"]\n',
    'dpk/_impl.py': ''.join(f'def {n}():\n    """Doc of {n}. See L{{{m}}}."""\n' for n, m in
                            [('alpha', 'beta'), ('beta', 'gamma'), ('gamma', 'Delta'), ('zeta', 'eta'), ('eta', 'Theta')]) +
                    ''.join(f'class {n}:\n    """Doc of {n}."""\n    def m(self): pass\n' for n in ('Delta', 'Epsilon', 'Theta')),
    'dpk/Queue.py': 'def qa():\n    """qa"""\nclass Same:\n    pass\n',
    'dpk/queue.py': 'def qb():\n    """qb"""\nclass Same:\n    pass\n',
    'dpk/users.py': 'from dpk._impl import *\nfrom dpk import *\nclass U(Delta, Theta):\n    """See L{alpha} and L{Epsilon}."""\n    x = {1, 2, 3}\n    y = frozenset(["a", "b"])\n',
    'other.py': 'from dpk import Delta\nclass O(Delta):\n    pass\n',
    # members that tie under either member order (one source line; names differing only in case), inherited over two levels
    'dpk/ties.py': 'class Many:\n    a = b = c = d = e = f = 0\n    """one line, several names"""\n    Aa = 1; aA = 2; AA = 3; aa = 4\n    def Mm(self): pass\n    def mM(self): pass\n'
                   'class Derived(Many):\n    """Inherits all of them."""\nclass Deeper(Derived):\n    g = h = i = 0\nx = y = z = 1\n'
                   # a member overridden in subclasses whose names differ in case only, one of them reachable through two bases
                   'class TBase:\n    def run(self):\n        """run"""\nclass Worker(TBase):\n    def run(self): pass\nclass worker(TBase):\n    def run(self): pass\n'
                   'class WORKER(TBase):\n    def run(self): pass\nclass Both(Worker, worker):\n    def run(self): pass\nclass both(worker, Worker):\n    def run(self): pass\n',
    # several interfaces that declare the same members, implemented by one base class and inherited: which interface a member is
    # attributed to ("from IXxx") must not depend on the hash seed
    'dpk/zi.py': 'from zope.interface import Interface, implementer, Attribute\n' +
                 ''.join(f'class I{n}(Interface):\n    """Interface {n}."""\n    def read(size):\n        """read of I{n}"""\n    def close():\n        """close of I{n}"""\n    name = Attribute("name of I{n}")\n'
                         for n in ('Alpha', 'Beta', 'Gamma', 'Delta', 'Epsilon', 'Zeta')) +
                 '@implementer(IAlpha, IBeta, IGamma)\nclass Base:\n    def read(self, size): pass\n@implementer(IDelta, IEpsilon, IZeta)\nclass Mixin:\n    pass\n'
                 'class Temp(Base, Mixin):\n    def read(self, size): pass\n    def close(self): pass\n    name = "x"\nclass Temp2(Mixin, Base):\n    def close(self): pass\n    name = "y"\n',
}


def run_case(case: Dict[str, Any]) -> core.Res:
    res = core.Res()
    if case['part'] == 'D':
        base = Path(tempfile.mkdtemp(prefix='vf18d-'))
        try:
            for rel, src in DIRECTED.items():
                p = base / rel
                p.parent.mkdir(parents=True, exist_ok=True)
                p.write_text(src)
            res.c('multi_root_projects')
            res.c('guessed_name_projects')
            _judge(res, 'directed', [str(base / 'dpk'), str(base / 'other.py')], [], case['configs'], {'project': 'directed', 'sources': DIRECTED}, epoch=True)
            _judge(res, 'directed/source-order', [str(base / 'dpk'), str(base / 'other.py')], ['--cls-member-order=source', '--mod-member-order=source'], case['configs'],
                   {'project': 'directed', 'args': ['--cls-member-order=source', '--mod-member-order=source'], 'sources': DIRECTED}, epoch=1577836800)
            # the roots given the way a configuration file gives them (the repeatable add-package option) instead of as arguments
            for extra_root in ('r2.py', 'r3.py', 'r4.py'):
                (base / extra_root).write_text(f'"""Root {extra_root}."""\nclass R:\n    pass\n')
            ap = [f'--add-package={base / x}' for x in ('dpk', 'other.py', 'r2.py', 'r3.py', 'r4.py')]
            _judge(res, 'directed/add-package', [], ap, case['configs'], {'project': 'directed', 'args': ['--add-package=... x5'], 'sources': DIRECTED}, epoch=True)
        finally:
            shutil.rmtree(base, ignore_errors=True)
        res.sample({'directed': sorted(DIRECTED)})
        return res
    if case['part'] == 'P':
        label = Path(case['path']).name
        _judge(res, label, [case['path']], ['--project-name=proj'], case['configs'], {'path': case['path']}, epoch=True)
        res.sample({'package': case['path']})
        return res
    feat = project.Features.rendering()
    if case['part'] == 'M':
        feat.multi_root = True
    r = core.rng('C18', case['part'], case['seed'], case['k'])
    spec = project.generate(r, feat)
    tries = 0
    while case['part'] == 'M' and len(spec.roots()) < 2 and tries < 20:
        spec = project.generate(r, feat)
        tries += 1
    base = Path(tempfile.mkdtemp(prefix='vf18src-'))
    try:
        roots = [str(p) for p in project.write(spec, base, seed=('C18', case['seed'], case['k']))]
        named = case['part'] == 'G' and r.random() < .6
        extra = (['--project-name=proj'] if named else []) + [f'--privacy={p}' for p in spec.privacy] + \
                [f"--docformat={r.choice(['epytext', 'epytext', 'restructuredtext', 'plaintext'])}"] + \
                r.choice([[], [], ['--sidebar-expand-depth=2'], ['--sidebar-expand-depth=3', '--sidebar-toc-depth=3'], ['--theme=readthedocs', '--sidebar-expand-depth=2'],
                          ['--theme=base'], ['--no-sidebar'], ['--cls-member-order=source', '--mod-member-order=source', '--sidebar-expand-depth=4']])
        label = f"C18:{case['part']}:{case['seed']}:{case['k']}"
        if len(roots) > 1:
            res.c('multi_root_projects')
        if not named:
            res.c('guessed_name_projects')
        _judge(res, label, roots, extra, case['configs'], {'project': label, 'args': extra, 'sources': project.sources(spec, seed=('C18', case['seed'], case['k']))},
               epoch=(False if case['k'] % 3 == 1 else EPOCHS[(case['k'] // 3) % len(EPOCHS)]))
        res.sample({'project': label, 'roots': [os.path.basename(x) for x in roots], 'args': extra})
    finally:
        shutil.rmtree(base, ignore_errors=True)
    return res


def finish(agg: Dict[str, Any], tier: str, seed: int) -> None:
    agg['cnt']['configurations'] = len(agg['sets'].get('configurations', ()))
