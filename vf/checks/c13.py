"""C13 -- privacy rules mean what the manual says (reference-model monitor)."""
from __future__ import annotations

import itertools
from typing import Any, Dict, List

from vf import core
from vf.ref import glob_ref

ID = 'C13'
LEVEL = 'exploration'
RULE = ('part A: every pattern of length<=L over {a b _ . * ? [ ] !} against every name of length<=L over '
        '{a b _ .} (exhaustive), qnmatch.qnmatch vs a regex-free reference matcher; a pattern is non-trivial if '
        'it contains a metacharacter and is in the documented forms; plus random longer patterns derived from '
        'real qualified names. part B: rule lists (exact names and patterns, three levels) given through '
        'Options.from_args to a live System, Documentable.privacyClass of every object vs a 12-line reference; '
        'a rule list is one distinct case.')
ASSUME = ['reference matcher vf/ref/glob_ref.py is a correct reading of the manual',
          'forms the manual does not define (ranges, ^, backslash, unclosed [, empty set, ] first) are executed but not compared']
DECIDING = {'pairs_compared': 100000, 'privacy_queries': 5000, 'reexported_queries': 100, 'privacy_queries_after_move': 1000}
CPU_S = 600

PALPHA = 'ab_.*?[]!'
NALPHA = 'ab_.'


def _all_strings(alpha: str, maxlen: int) -> List[str]:
    out = ['']
    for n in range(1, maxlen + 1):
        out.extend(''.join(t) for t in itertools.product(alpha, repeat=n))
    return out


POOL = ['pkg._impl', 'pkg._impl.Base', 'pkg.Moved', 'pkg._impl.Moved', '**', 'pkg.*', 'pkg.**', '**._*', '*',
        'pkg._impl.*', '**.__*__', 'pkg.?ub.*', 'pkg.[!_]*', 'pkg.pub.func', 'pkg.[_p]*.[BM]*', '**.Base.*',
        # names that exist only after Base has been moved (see the end of _run_B), and one that exists only before
        'pkg.pub.Relocated._priv', 'pkg.pub.Relocated.*', 'pkg._impl.Base.meth']
LEVELS = ['PUBLIC', 'PRIVATE', 'HIDDEN']

SRC_INIT = '''
from ._impl import Moved
from .pub import func as renamed_func
__all__ = ['Moved', 'renamed_func2']
'''
SRC_IMPL = '''
class Base:
    def meth(self): pass
    def _priv(self): pass
    def __dunder__(self): pass
    def __half(self): pass
    class _Inner:
        x = 1
class Moved:
    def m(self): pass
    _attr = 1
_modpriv = 1
'''
SRC_PUB = '''
def func(): pass
def _hidden_func(): pass
class a_b:
    __slots__ = ()
    def _(self): pass
    def __(self): pass
    def ___(self): pass
'''


# every identifier over {_, a} up to length 5 (and a few with digits): all shapes of leading/trailing underscores
import keyword as _keyword
SHAPES = [n for k in range(1, 6) for n in (''.join(t) for t in itertools.product('_a', repeat=k)) if n.isidentifier() and not _keyword.iskeyword(n)] + \
         ['_1', '__1', '__1__', '_1__', '_a1_', '__a_b__', '_a__b', 'a__', '_é', '__é__', '_é__',
          # names that mean something special for *modules* only
          '__main__', '__init__', '__main', 'main__', '__all__', '__doc__']
SRC_PUB += 'class shapes:\n' + ''.join(f'    def {n}(self): pass\n' for n in SHAPES) + ''.join(f'{n} = 1\n' for n in SHAPES if n not in ('a',))


def cases(tier: str, seed: int) -> List[Dict[str, Any]]:
    L = 4 if tier == 'quick' else 5
    npat = sum(len(PALPHA) ** n for n in range(0, L + 1))
    chunk = 400 if tier == 'quick' else 1500
    out: List[Dict[str, Any]] = []
    for lo in range(0, npat, chunk):
        out.append({'part': 'A', 'L': L, 'NL': 5 if tier == 'quick' else 6, 'lo': lo, 'hi': min(npat, lo + chunk)})
    nrand = 100000 if tier == 'quick' else 500000
    for k in range(0, nrand, 2500):
        out.append({'part': 'R', 'seed': seed, 'k': k, 'n': 2500})
    # part B: rule lists
    pool = [(lvl, p) for lvl in LEVELS for p in POOL]
    lists: List[List[int]] = [[]] + [[i] for i in range(len(pool))]
    lists += [[i, j] for i in range(len(pool)) for j in range(len(pool))]
    if tier == 'thorough':
        lists += [[i, j, k] for i in range(len(pool)) for j in range(len(pool)) for k in range(len(pool))]
        r = core.rng(seed, 'C13', 'B')
        r.shuffle(lists)
        lists = lists[:60000]
    else:
        r = core.rng(seed, 'C13', 'B')
        triples = [[r.randrange(len(pool)) for _ in range(3)] for _ in range(4000)]
        pairs = lists[1 + len(pool):]
        r.shuffle(pairs)
        lists = lists[:1 + len(pool)] + pairs[:800] + triples
    per = 50
    for lo in range(0, len(lists), per):
        out.append({'part': 'B', 'lists': lists[lo:lo + per]})
    return out


def worker_init() -> None:
    global qnmatch, model, Options
    from pydoctor import qnmatch as _q, model as _m
    from pydoctor.options import Options as _O
    qnmatch, model, Options = _q, _m, _O


def _classify_A(pat: str, name: str, got: bool, exp: bool) -> str:
    if '**' in pat:
        return 'C13:doublestar'
    if '*' in pat:
        return 'C13:star'
    if '[' in pat:
        return 'C13:set'
    if '?' in pat:
        return 'C13:question'
    return 'C13:literal'


def _run_A(case: Dict[str, Any], res: core.Res) -> None:
    pats = _all_strings(PALPHA, case['L'])[case['lo']:case['hi']]
    names = _all_strings(NALPHA, case['NL'])
    for pat in pats:
        toks = glob_ref.tokenize(pat)
        meta = any(c in pat for c in '*?[')
        if toks is None:
            # undefined form: execute for totality only
            for name in names[:50]:
                try:
                    qnmatch.qnmatch(name, pat)
                except Exception as e:  # noqa: BLE001
                    res.v('C13:raises', f'qnmatch({name!r}, {pat!r}) raised {e!r}', pat=pat, name=name)
                    break
            res.c('patterns_undefined_executed')
            continue
        if meta:
            res.dn += 1
        res.c('patterns_compared')
        bad = 0
        for name in names:
            try:
                got = qnmatch.qnmatch(name, pat)
            except Exception as e:  # noqa: BLE001
                res.v('C13:raises', f'qnmatch({name!r}, {pat!r}) raised {e!r}', pat=pat, name=name)
                break
            exp = glob_ref.match_tokens(toks, name)
            if got != exp:
                bad += 1
                if bad <= 1:
                    res.v(_classify_A(pat, name, got, exp),
                          f'qnmatch({name!r}, {pat!r}) = {got}, manual says {exp}', pat=pat, name=name)
        res.c('pairs_compared', len(names))
    res.c('evaluations', len(pats) * len(names))
    if case['lo'] == 0:
        res.sample({'pattern': pats[min(37, len(pats) - 1)], 'names': names[:6], 'n_names': len(names)})


REAL = ['twisted.internet.defer.Deferred.addCallback', 'pydoctor.model.System._privacyClassCache',
        'pkg._impl.Base.__init__', 'a.b.c', 'email.mime.text.MIMEText', 'x', '_x.__y__._z', 'asyncio.base_events',
        'json.encoder.JSONEncoder.default', 'os.path', 'zope.interface.Interface', 'a..b', '.a', 'a.']


def _mutate_to_pattern(r, name: str) -> str:
    parts = name.split('.')
    out = []
    for p in parts:
        k = r.randrange(9)
        if k == 0:
            out.append('*')
        elif k == 1:
            out.append('**')
        elif k == 2 and p:
            i = r.randrange(len(p))
            out.append(p[:i] + '?' + p[i + 1:])
        elif k == 3 and p:
            i = r.randrange(len(p))
            out.append(p[:i] + '*')
        elif k == 4 and p:
            i = r.randrange(len(p))
            out.append(p[:i] + '[' + ('!' if r.random() < .4 else '') + p[i] + r.choice('abc_X') + ']' + p[i + 1:])
        elif k == 5 and p:
            i = r.randrange(len(p))
            out.append('*' + p[i:])
        else:
            out.append(p)
    s = '.'.join(out)
    if r.random() < .1:
        s = s.replace('.', '**', 1)
    if r.random() < .1:
        s = '**' + s[r.randrange(len(s) + 1):]
    return s


def _run_R(case: Dict[str, Any], res: core.Res) -> None:
    r = core.rng(case['seed'], 'C13', 'R', case['k'])
    for _ in range(case['n']):
        base = r.choice(REAL)
        pat = _mutate_to_pattern(r, base)
        name = base if r.random() < .5 else r.choice(REAL)
        if r.random() < .3:
            ps = name.split('.')
            ps[r.randrange(len(ps))] = r.choice(['', '_', 'q', 'Deferred', '__init__', 'a.b'])
            name = '.'.join(ps)
        exp = glob_ref.ref_qnmatch(name, pat)
        try:
            got = qnmatch.qnmatch(name, pat)
        except Exception as e:  # noqa: BLE001
            res.v('C13:raises', f'qnmatch({name!r}, {pat!r}) raised {e!r}', pat=pat, name=name)
            continue
        if exp is None:
            res.c('patterns_undefined_executed')
            continue
        res.c('pairs_compared')
        res.c('random_pairs')
        if exp:
            res.c('random_pairs_matching')
        res.distinct('R:' + pat)
        if got != exp:
            res.v(_classify_A(pat, name, got, exp), f'qnmatch({name!r}, {pat!r}) = {got}, manual says {exp}',
                  pat=pat, name=name)
    res.c('evaluations', case['n'])
    res.sample({'random_pattern': pat, 'name': name, 'match': exp})


def _build(rules: List[str]):
    opts = Options.from_args([f'--privacy={x}' for x in rules])
    system = model.System(opts)
    b = system.systemBuilder(system)
    b.addModuleString(SRC_INIT, 'pkg', is_package=True)
    b.addModuleString(SRC_IMPL, '_impl', parent_name='pkg')
    b.addModuleString(SRC_PUB, 'pub', parent_name='pkg')
    b.buildModules()
    return system


def _run_B(case: Dict[str, Any], res: core.Res) -> None:
    pool = [(lvl, p) for lvl in LEVELS for p in POOL]
    r = core.rng('C13', 'B', str(case['lists'][0]))
    for idxs in case['lists']:
        rules = [pool[i] for i in idxs]
        # surface syntax variations accepted by the documented rule format: case-insensitive level, blanks
        texts = []
        for lvl, p in rules:
            k = r.randrange(4)
            lv = [lvl, lvl.lower(), lvl.capitalize(), ' ' + lvl + ' '][k]
            texts.append(f'{lv}:{p}')
        system = _build(texts)
        res.c('rule_lists')
        res.distinct('B:' + '|'.join(f'{a}:{b}' for a, b in rules))
        objs = list(system.allobjects.values())
        if 'pkg.Moved' not in system.allobjects or 'pkg._impl.Moved' in system.allobjects:
            res.v('C13:harness-reexport', 'fixture re-export did not move', keys=sorted(system.allobjects))
        for o in objs:
            fn = o.fullName()
            exp = glob_ref.ref_privacy(fn, o.name, rules)
            got1 = o.privacyClass.name
            got2 = o.privacyClass.name
            res.c('privacy_queries')
            if fn.startswith('pkg.Moved'):
                res.c('reexported_queries')
            if got1 != got2:
                res.v('C13:cache', f'{fn}: two queries gave {got1} then {got2}', rules=texts)
            if got1 != exp:
                exact = any(p == fn for _, p in rules)
                key = 'C13:precedence-exact' if exact else 'C13:precedence-pattern'
                if not rules:
                    key = 'C13:default'
                res.v(key, f'{fn}: privacyClass={got1}, manual says {exp} under rules {texts}', rules=texts, obj=fn)
            # isVisible follows containers
            vis_exp = True
            p = o
            while p is not None:
                if glob_ref.ref_privacy(p.fullName(), p.name, rules) == 'HIDDEN':
                    vis_exp = False
                p = p.parent
            if o.isVisible != vis_exp:
                res.v('C13:visible', f'{fn}: isVisible={o.isVisible}, expected {vis_exp} under {texts}', rules=texts, obj=fn)
        res.c('evaluations', len(objs))
        # privacy is a function of the qualified name: after every object was asked once, a class is moved (the documented
        # Documentable.reparent, as a later re-export would) and it and its members are asked again under their new names
        base, pub = system.allobjects.get('pkg._impl.Base'), system.allobjects.get('pkg.pub')
        if base is not None and pub is not None:
            base.reparent(pub, 'Relocated')
            todo = [base]
            while todo:
                o = todo.pop()
                todo.extend(o.contents.values())
                fn = o.fullName()
                exp = glob_ref.ref_privacy(fn, o.name, rules)
                got = o.privacyClass.name
                res.c('privacy_queries_after_move')
                if got != exp:
                    res.v('C13:privacy-after-move', f'{fn} (moved from pkg._impl.Base after its privacy had been asked): privacyClass={got}, manual says {exp} under rules {texts}', rules=texts, obj=fn)
    res.sample({'rules': texts, 'objects': len(objs)})


def run_case(case: Dict[str, Any]) -> core.Res:
    res = core.Res()
    {'A': _run_A, 'R': _run_R, 'B': _run_B}[case['part']](case, res)
    return res


def finish(agg: Dict[str, Any], tier: str, seed: int) -> None:
    agg['exhaustive'] = True
    agg['extra'] = {'exhaustive_part': f'patterns and names up to length {4 if tier == "quick" else 5} (part A); '
                                       'rule lists of length<=2 over the pool (quick) / sampled length 3 (part B) are not exhaustive'}
