"""C01 -- a run never aborts: any Python source tree is analysed and rendered to the end
(process-level monitor around the real driver.main: exception capture, exit status, conservation over the input files,
artefact inventory, audit hook for writes, differential for the unparsable-neighbour clause)."""
from __future__ import annotations

import contextlib
import io
import os
import shutil
import subprocess
import sys
import tempfile
import traceback
from pathlib import Path
from typing import Any, Dict, List, Optional, Set, Tuple

from vf import core

ID = 'C01'
LEVEL = 'exploration'
RULE = ('one evaluation = one run of the real driver.main on a source tree with one --docformat. Trees: real packages/modules of the '
        'stdlib, site-packages and pydoctor itself (docstrings in the "wrong" format included); G-WILD packages (random ast over every '
        'statement/expression/pattern/type-parameter class with pydoctor-relevant names and fuzzed docstrings); G-PROJ projects; MUT '
        '(byte/line/token mutations, encodings, truncation) of generated and real files with at least one surely unparsable file next '
        'to good ones; directed stress classes (long operator chains, deep nesting, huge/odd literals, lone surrogates and control '
        'characters, odd __all__/__docformat__, name clashes, odd file names, empty files, broken __init__.py, same path twice, several '
        'roots, symlink loops, many modules). Oracle: no exception leaves main, exit status in {0,2,3}, every input file is a processed '
        'module or is reported by a message naming it, the required artefacts and one page per visible module/class exist and are '
        'complete, nothing is written outside the output directory, and the objects/pages of the good files are the same with and '
        'without the unparsable siblings. Distinct: (tree, docformat); non-trivial: the tree has >=2 files or >=20 AST statements.')
ASSUME = ['option errors (exit 1 from utils.error) are not generated: every path exists and directories have an __init__.py',
          'a CPU-budget overrun counts only when it repeats alone with four times the budget',
          'operating-system limits (file name length) are input-independent environment limits only up to 200-character identifiers, which the workload does not exceed']
DECIDING = {
    'quick': {'runs': 250, 'files_accounted': 1500, 'artefact_checks': 250, 'unparsable_files': 60, 'quoted_message_files_checked': 60, 'neighbour_differentials': 40, 'audit_events': 2000, 'wild_trees': 40, 'directed_trees': 40, 'corpus_trees': 8},
    'thorough': {'runs': 4000, 'files_accounted': 30000, 'artefact_checks': 4000, 'unparsable_files': 1500, 'quoted_message_files_checked': 2000, 'neighbour_differentials': 800, 'audit_events': 50000, 'wild_trees': 1000, 'directed_trees': 45, 'corpus_trees': 150},
}
CPU_S = 900
HANG_IS_VIOLATION = True
CRASH_IS_VIOLATION = True
FORMATS = ['epytext', 'restructuredtext', 'google', 'numpy', 'plaintext']
REQUIRED = ['index.html', 'moduleIndex.html', 'classIndex.html', 'nameIndex.html', 'undoccedSummary.html', 'all-documents.html',
            'searchindex.json', 'fullsearchindex.json', 'objects.inv', 'apidocs.css']


# ------------------------------------------------------------------------------------------------
# monitors

_captured: List[Any] = []
_audit: Dict[str, Any] = {'armed': False, 'allowed': (), 'events': 0, 'bad': [], 'temp': []}


def _audit_hook(event: str, args: Tuple[Any, ...]) -> None:
    if not _audit['armed']:
        return
    try:
        if event in ('tempfile.mkdtemp', 'tempfile.mkstemp'):
            # scratch space the run asks the tempfile module for (the writer probes hard-link support there) is its own
            _audit['temp'].append(os.path.realpath(os.fsdecode(args[0])))
            return
        if event == 'open':
            path, mode, flags = args[0], args[1], args[2]
            writing = (isinstance(mode, str) and any(ch in mode for ch in 'wax+')) or \
                      (mode is None and isinstance(flags, int) and flags & (os.O_WRONLY | os.O_RDWR | os.O_CREAT | os.O_TRUNC | os.O_APPEND))
            _audit['events'] += 1
            if not writing or isinstance(path, int):
                return
            p = os.path.realpath(os.fsdecode(path))
        elif event in ('os.mkdir', 'os.remove', 'os.rename', 'os.rmdir', 'os.symlink', 'os.link', 'os.truncate', 'shutil.rmtree', 'shutil.copyfile', 'shutil.move', 'os.chmod'):
            _audit['events'] += 1
            target = args[1] if event in ('os.symlink', 'os.link', 'shutil.copyfile', 'shutil.move', 'os.rename') and len(args) > 1 else args[0]
            if isinstance(target, int) or target is None:
                return
            target = os.fsdecode(target)
            dir_fd = args[-1] if event in ('os.remove', 'os.rmdir', 'os.mkdir') and len(args) > 1 and isinstance(args[-1], int) and args[-1] >= 0 else None
            if event == 'os.mkdir' and len(args) == 3:
                dir_fd = args[2] if isinstance(args[2], int) and args[2] >= 0 else None
            if dir_fd is not None and not os.path.isabs(target):
                target = os.path.join(os.readlink(f'/proc/self/fd/{dir_fd}'), target)
            p = os.path.realpath(target)
        else:
            return
        if not p.startswith(_audit['allowed']) and p != os.devnull and not any(p == t or p.startswith(t + os.sep) for t in _audit['temp']):
            if len(_audit['bad']) < 5:
                _audit['bad'].append(f'{event} {p}')
    except Exception:  # noqa: BLE001 -- the monitor must never disturb the run
        pass


def worker_init() -> None:
    from vf.mon import msgs
    msgs.install()
    from pydoctor import driver
    orig = driver.get_system

    def get_system(options: Any) -> Any:
        s = orig(options)
        _captured.append(s)
        return s
    driver.get_system = get_system  # type: ignore[assignment]
    # the partially built system must be observable when get_system itself raises: remember the System at construction
    from pydoctor import model
    oinit = model.System.__init__

    def __init__(self: Any, *a: Any, **k: Any) -> None:
        oinit(self, *a, **k)
        _captured.append(self)
    model.System.__init__ = __init__  # type: ignore[method-assign]
    oanalyze = model.System.analyzeModule

    def analyzeModule(self: Any, *a: Any, **k: Any) -> Any:
        mod = oanalyze(self, *a, **k)
        self.__dict__.setdefault('_vf_modules', []).append(mod)
        return mod
    model.System.analyzeModule = analyzeModule  # type: ignore[method-assign]
    sys.addaudithook(_audit_hook)
    sys.setrecursionlimit(max(sys.getrecursionlimit(), 1000))


# ------------------------------------------------------------------------------------------------
# running one tree

class Outcome:
    def __init__(self) -> None:
        self.code: Optional[int] = None
        self.exc: Optional[str] = None
        self.exc_key = ''
        self.system: Any = None
        self.files: Set[str] = set()
        self.stdout = ''
        self.bad_writes: List[str] = []


def _exc_key(e: BaseException) -> str:
    """mechanism key of an uncaught exception: its type and the innermost pydoctor function on the stack"""
    tb = traceback.extract_tb(e.__traceback__)
    inner = ''
    for fr in tb:
        fn = fr.filename.replace('\\', '/')
        if '/pydoctor/' in fn and '/vf/' not in fn:
            inner = f"{fn.split('/pydoctor/')[-1]}:{fr.name}"
    name = type(e).__name__
    if isinstance(e, RecursionError):
        # the innermost frame of a recursion overflow is arbitrary: key by the outermost recursive pydoctor function instead
        seen: Dict[str, int] = {}
        for fr in tb:
            fn = fr.filename.replace('\\', '/')
            if '/pydoctor/' in fn:
                k = f"{fn.split('/pydoctor/')[-1]}:{fr.name}"
                seen[k] = seen.get(k, 0) + 1
        rec = [k for k, n in seen.items() if n >= 20]
        inner = rec[0] if rec else (inner or 'interpreter')
    if type(e).__name__ == 'FlattenerError':
        # twisted wraps the real error: look at the root cause
        root = getattr(e, 'args', [None])[0]
        if isinstance(root, BaseException):
            return 'Flattener>' + _exc_key(root)
    return f'{name}@{inner}'


def run_tree(paths: List[str], fmt: str, extra: Optional[List[str]] = None, keep_out: bool = False) -> Outcome:
    from pydoctor import driver
    o = Outcome()
    out = tempfile.mkdtemp(prefix='vf01o-')
    del _captured[:]
    buf = io.StringIO()
    argv = ['--html-output', out, '--project-name=p', f'--docformat={fmt}', '-q'] + (extra or []) + paths
    _audit.update(armed=True, allowed=(os.path.realpath(out) + os.sep, os.path.realpath(out)), bad=[], temp=[])
    try:
        with contextlib.redirect_stdout(buf), contextlib.redirect_stderr(buf):
            try:
                o.code = driver.main(argv)
            except core.CpuTimeout:
                raise
            except SystemExit as e:
                o.code = e.code if isinstance(e.code, int) else 1
                o.exc = f'SystemExit({e.code!r})'
                o.exc_key = 'SystemExit'
            except BaseException as e:  # noqa: BLE001
                o.exc = ''.join(traceback.format_exception(type(e), e, e.__traceback__))[-2500:]
                o.exc_key = _exc_key(e)
    finally:
        _audit['armed'] = False
        o.bad_writes = list(_audit['bad'])
        o.system = _captured[-1] if _captured else None
        o.stdout = buf.getvalue()
        for root, dirs, files in os.walk(out):
            for f in files:
                p = os.path.join(root, f)
                o.files.add(os.path.relpath(p, out))
        o.outdir = out  # type: ignore[attr-defined]
        if not keep_out:
            _check_pages_complete(o, out)
            shutil.rmtree(out, ignore_errors=True)
    return o


def _check_pages_complete(o: Outcome, out: str) -> None:
    bad = []
    for f in sorted(o.files):
        if f.endswith('.html'):
            try:
                with open(os.path.join(out, f), 'rb') as fh:
                    data = fh.read()
            except OSError:
                continue
            if not data.rstrip().endswith(b'</html>'):
                bad.append(f)
    o.truncated = bad  # type: ignore[attr-defined]


def input_files(paths: List[str]) -> List[str]:
    """the files pydoctor's documented discovery rule hands to the analysis: a .py file given directly, and for a package directory
    its __init__.py, its *.py files not starting with a dot and, recursively, its sub-directories that have an __init__.py"""
    out: List[str] = []

    def pkg(d: str) -> None:
        out.append(os.path.join(d, '__init__.py'))
        for n in sorted(os.listdir(d)):
            p = os.path.join(d, n)
            if os.path.isdir(p):
                if os.path.exists(os.path.join(p, '__init__.py')):
                    pkg(p)
            elif n.endswith('.py') and n != '__init__.py' and not n.startswith('.'):
                out.append(p)
    for p in paths:
        if os.path.isdir(p):
            pkg(p)
        else:
            out.append(p)
    return out


def judge(res: core.Res, label: str, paths: List[str], fmt: str, o: Outcome, w: Dict[str, Any], unparsable: Optional[Set[str]] = None) -> bool:
    """applies the oracle to one finished run; returns True when the run completed"""
    from pydoctor import model
    from vf.mon import msgs
    res.c('runs')
    if o.bad_writes:
        res.v('C01:write-outside-output', f'{label}: wrote outside the output directory: {o.bad_writes[:3]}', **w)
    if o.exc is not None:
        res.v(f'C01:uncaught:{o.exc_key}', f'{label} [{fmt}]: the run aborted: {o.exc[-700:]}', **w)
        return False
    if o.code not in (0, 2, 3):
        res.v(f'C01:exit-status:{o.code}', f'{label}: exit status {o.code!r}', **w)
    system = o.system
    if system is None:
        res.v('C01:no-system', f'{label}: no System was built', **w)
        return False
    # conservation over the input files
    files = input_files(paths)
    by_path: Dict[str, List[Any]] = {}
    for ob in list(system.__dict__.get('_vf_modules', [])):
        if ob.source_path is not None:
            by_path.setdefault(os.path.realpath(str(ob.source_path)), []).append(ob)
    log = msgs.messages(system)
    texts = [m[1] for m in log]
    seen_real: Set[str] = set()
    for f in files:
        rf = os.path.realpath(f)
        if rf in seen_real:
            continue
        seen_real.add(rf)
        res.c('files_accounted')
        mods = by_path.get(rf, [])
        reported = any((t.startswith(f + ':') or t.startswith(rf + ':')) and 'cannot parse' in t for t in texts)
        if any(m.state is model.ProcessingState.PROCESSED for m in mods):
            res.c('files_processed')
            if unparsable and rf in unparsable and not reported:
                res.c('unparsable_but_processed')
            elif reported:
                res.c('unparsable_files')
        elif reported:
            res.c('unparsable_files')
        elif not mods:
            res.v('C01:file-lost', f'{label}: input file {f} was never made a module and no message names it', **w)
        else:
            mod = mods[0]
            winner = system.allobjects.get(mod.fullName())
            wpath = os.path.realpath(str(winner.source_path)) if isinstance(winner, model.Module) and winner.source_path is not None else None
            if winner is not mod and any('duplicate' in t for t in texts) and wpath in {os.path.realpath(x) for x in files}:
                # two inputs with the same qualified name (module a.py next to package a/, two roots of the same name):
                # they cannot both be documented, the later one wins and a "duplicate" message is issued
                res.c('files_superseded_by_same_name')
            elif winner is not mod and wpath is not None:
                res.v('C01:input-file-displaced-by-non-input', f'{label}: {f} was never analysed: its module {mod.fullName()} was replaced by one read from {wpath}, which is not a Python source file of the tree', **w)
            else:
                res.v(f'C01:module-not-processed:{mod.state.name}', f'{label}: module {mod.fullName()} ({f}) ended in state {mod.state.name} without a message naming the file', **w)
    if system.unprocessed_modules:
        res.v('C01:unprocessed-left', f'{label}: {len(system.unprocessed_modules)} modules left unprocessed', **w)
    # located problem messages name a file of the tree -- and, for problems of a docstring, a line of a docstring of that file
    roots_real = [os.path.realpath(p) for p in paths]
    for m in log:
        if m[2] < 0:
            loc = msgs.parse_loc(m[1])
            if loc and os.path.isabs(loc[0]):
                res.c('located_messages')
                rp = os.path.realpath(loc[0])
                if not any(rp == rr or rp.startswith(rr.rstrip(os.sep) + os.sep) for rr in roots_real):
                    res.v('C01:message-names-foreign-file', f'{label}: message names {loc[0]!r}, not a file of the tree: {m[1][:150]}', **w)
                else:
                    # a message that quotes a piece of the docstring at fault names the file in which that piece is written
                    mm = _QUOTED.match(loc[2])
                    rf = _re.search(r'resolved from "([^"]+)"', loc[2])
                    token = rf.group(1) if rf else (mm.group(2) if mm else '')
                    if mm and _PLAIN_TOKEN.match(token):
                        text = _file_text(rp)
                        if text is not None:
                            res.c('quoted_message_files_checked')
                            # (field tags are case-insensitive: the message quotes them in lower case, whatever the docstring spells)
                            # ('newfield' is the tag of the field pydoctor itself makes up for a consolidated field it cannot split: nothing of the docstring)
                            if token not in text and not (mm.group(0).startswith('Unknown field') and (token.lower() in text.lower() or token == 'newfield')):
                                res.v('C01:message-names-wrong-file', f'{label}: {m[1][:200]!r}: the file named does not contain {token!r}', **w)
    # artefacts
    res.c('artefact_checks')
    missing = [a for a in REQUIRED if a not in o.files]
    if missing:
        res.v('C01:artefact-missing', f'{label}: missing from the output directory: {missing}', **w)
    reachable: Set[int] = set()
    stack = list(system.rootobjects)
    while stack:
        ob = stack.pop()
        if id(ob) not in reachable:
            reachable.add(id(ob))
            stack.extend(ob.contents.values())
    for ob in system.allobjects.values():
        if isinstance(ob, (model.Module, model.Class)) and ob.isVisible:
            res.c('pages_expected')
            name = 'index.html' if (len(system.rootobjects) == 1 and ob is system.rootobjects[0]) else ob.fullName() + '.html'
            if name not in o.files:
                if id(ob) not in reachable:
                    res.v('C01:page-missing:object-unreachable-from-roots', f'{label}: no page {name!r} for visible {ob.kind} {ob.fullName()}, which is registered but not reachable from the root objects', **w)
                else:
                    res.v('C01:page-missing', f'{label}: no page {name!r} for visible {ob.kind} {ob.fullName()}', **w)
    if getattr(o, 'truncated', None):
        res.v('C01:page-truncated', f'{label}: pages not written to the end: {o.truncated[:3]}', **w)  # type: ignore[attr-defined]
    res.c('audit_events', _audit['events'])
    _audit['events'] = 0
    return True


import re as _re
_QUOTED = _re.compile(r'^(Cannot find link target for|Unknown field|Documented parameter|Parameter) ["\']([^"\']+)["\']')
_PLAIN_TOKEN = _re.compile(r'^[A-Za-z_][A-Za-z0-9_.]{3,}$')
_file_text_cache: Dict[str, Optional[str]] = {}


def _file_text(path: str) -> Optional[str]:
    if path not in _file_text_cache:
        if len(_file_text_cache) > 3000:
            _file_text_cache.clear()
        try:
            with open(path, 'rb') as f:
                data = f.read()
            # escapes in string literals can spell a name without containing it: such files are not judged
            _file_text_cache[path] = None if (b'\\x' in data or b'\\u' in data or b'\\N' in data or b'\\1' in data or b'\\0' in data) else data.decode('utf-8', 'replace')
        except OSError:
            _file_text_cache[path] = None
    return _file_text_cache[path]


def _summary(system: Any, exclude_prefixes: List[str]) -> Dict[str, str]:
    out = {}
    for name, ob in system.allobjects.items():
        if any(name == p or name.startswith(p + '.') for p in exclude_prefixes):
            continue
        out[name] = type(ob).__name__ + ':' + str(ob.kind or '')
    return out


# ------------------------------------------------------------------------------------------------
# workloads

def cases(tier: str, seed: int) -> List[Dict[str, Any]]:
    from vf.gen import corpus
    out: List[Dict[str, Any]] = []
    r = core.rng(seed, 'C01', 'corpus')
    if tier == 'quick':
        for i, p in enumerate(corpus.pick(r, 12, max_bytes=300_000)):
            out.append({'kind': 'corpus', 'path': p, 'formats': [FORMATS[(i + seed) % 5], FORMATS[(i + seed + 2) % 5]] if i < 6 else [FORMATS[(i + seed) % 5]]})
        nw, nm, npj = 45, 45, 24
    else:
        for i, (p, n, size) in enumerate(corpus.roots()):
            if size < 4_000_000:
                fm = FORMATS if size < 600_000 else [FORMATS[(i + seed) % 5], FORMATS[(i + seed + 1) % 5]]
                for f in fm:
                    out.append({'kind': 'corpus', 'path': p, 'formats': [f]})
        nw, nm, npj = 1500, 1200, 500
    for k in range(nw):
        out.append({'kind': 'wild', 'seed': seed, 'k': k, 'n': 3})
    for k in range(nm):
        out.append({'kind': 'mut', 'seed': seed, 'k': k, 'n': 3})
    for k in range(npj):
        out.append({'kind': 'proj', 'seed': seed, 'k': k, 'n': 2})
    for name in DIRECTED:
        out.append({'kind': 'directed', 'name': name, 'seed': seed, 'cpu_s': 240})
    return out


GOOD = '"""A good module."""\nclass Good:\n    """Good class."""\n    def meth(self, a):\n        """Good method. @param a: thing"""\n\ndef good_func():\n    """doc"""\n'


def _chain(op: str, n: int) -> str:
    return 'X = ' + op.join(['1'] * n) + '\n'


def _directed() -> Dict[str, Dict[str, Any]]:
    d: Dict[str, Dict[str, Any]] = {}

    def add(name: str, files: Dict[str, Any], **kw: Any) -> None:
        d[name] = dict(files=files, **kw)
    for n in (50, 200, 400, 900, 3000):
        add(f'chain-add-{n}', {'pkg/__init__.py': '', 'pkg/stress.py': _chain(' + ', n), 'pkg/good.py': GOOD})
    add('chain-and-1500', {'pkg/__init__.py': '', 'pkg/stress.py': 'X = ' + ' and '.join(['a'] * 1500) + '\n', 'pkg/good.py': GOOD})
    add('chain-attr-800', {'pkg/__init__.py': '', 'pkg/stress.py': 'X = a' + '.b' * 800 + '\n' + 'def f(x=a' + '.b' * 800 + '): pass\n', 'pkg/good.py': GOOD})
    add('chain-call-150', {'pkg/__init__.py': '', 'pkg/stress.py': 'X = f' + '()' * 150 + '\n' + '@f' + '()' * 90 + '\ndef g(): pass\n', 'pkg/good.py': GOOD})
    add('chain-sub-150', {'pkg/__init__.py': '', 'pkg/stress.py': 'X: a' + '[b]' * 150 + ' = 1\n', 'pkg/good.py': GOOD})
    add('chain-str-concat-600', {'pkg/__init__.py': '', 'pkg/stress.py': '__all__ = ' + ' + '.join(["['x']"] * 600) + '\n', 'pkg/good.py': GOOD})
    for n in (20, 60, 95, 190):
        add(f'nest-list-{n}', {'pkg/__init__.py': '', 'pkg/stress.py': 'X = ' + '[' * n + ']' * n + '\nclass C(' + '(' * min(n, 90) + 'B' + ')' * min(n, 90) + '): pass\n', 'pkg/good.py': GOOD})
    add('nest-lambda-90', {'pkg/__init__.py': '', 'pkg/stress.py': 'X = ' + 'lambda: ' * 90 + '0\n', 'pkg/good.py': GOOD})
    add('nest-unary-400', {'pkg/__init__.py': '', 'pkg/stress.py': 'X = ' + '-' * 400 + '1\nY = ' + 'not ' * 300 + 'a\n', 'pkg/good.py': GOOD})
    add('nest-ifexp-300', {'pkg/__init__.py': '', 'pkg/stress.py': 'X = ' + '1 if a else ' * 300 + '0\n', 'pkg/good.py': GOOD})
    add('nest-def-40', {'pkg/__init__.py': '', 'pkg/stress.py': ''.join('    ' * i + f'def f{i}():\n' for i in range(40)) + '    ' * 40 + 'pass\n', 'pkg/good.py': GOOD})
    add('nest-class-25', {'pkg/__init__.py': '', 'pkg/stress.py': ''.join('    ' * i + f'class C{i}:\n' for i in range(25)) + '    ' * 25 + '"""deep"""\n', 'pkg/good.py': GOOD})
    add('nest-if-90', {'pkg/__init__.py': '', 'pkg/stress.py': ''.join(' ' * i + 'if x:\n' for i in range(90)) + ' ' * 90 + 'class Deep: pass\n', 'pkg/good.py': GOOD})
    add('nest-elif-1500', {'pkg/__init__.py': '', 'pkg/stress.py': 'if a: x = 1\n' + ''.join(f'elif a == {i}:\n    x{i} = {i}\n' for i in range(1500)), 'pkg/good.py': GOOD})
    add('docstring-deep-markup', {'pkg/__init__.py': '', 'pkg/stress.py': 'def f():\n    """' + 'C{' * 600 + '}' * 600 + '"""\ndef g():\n    """' + '  ' * 0 + '\n'.join(' ' * i + '- x' for i in range(300)) + '"""\n', 'pkg/good.py': GOOD})
    add('strings-odd', {'pkg/__init__.py': '"""\\ud800 \\x00 \\x1b \\u202e \\U0010ffff \\x85"""\n', 'pkg/stress.py': 'X = "\\ud800"\nY = b"\\xff\\x00"\nZ = "\\x00\\x0c\\x1b"\ndef f(a="\\udfff", b="\\u2028"):\n    "\\udc80 doc"\nclass C:\n    "\\x00"\n    a = 1\n    "\\ud800 attr doc"\n', 'pkg/good.py': GOOD})
    add('names-unicode', {'pkg/__init__.py': '', 'pkg/é.py': 'class Ω: "doc"\ndef ﬁ(): pass\nµ = 1\n', 'pkg/good.py': GOOD})
    add('all-odd', {'pkg/__init__.py': '__all__ = "good"\n', 'pkg/a.py': '__all__ = [1, None, *x, "f", "nosuch", "f"]\ndef f(): pass\n', 'pkg/b.py': '__all__ = ["f"] + other.__all__\n__all__ += 3\n__all__.extend(5)\n__all__: list = ["x"]\n',
                     'pkg/c.py': 'from .a import *\nfrom .b import *\nfrom .nosuch import *\nfrom . import *\n__all__ = ()\n', 'pkg/d.py': 'for __all__ in x: pass\ndef __all__(): pass\nclass __all__: pass\n', 'pkg/good.py': GOOD})
    add('docformat-odd', {'pkg/__init__.py': '__docformat__ = 1\n', 'pkg/a.py': '__docformat__ = "nosuch"\n"""x"""\ndef f():\n    """doc"""\n', 'pkg/b.py': '__docformat__ = ""\ndef f():\n    """doc"""\n', 'pkg/c.py': '__docformat__ = "restructuredtext en extra"\ndef f():\n    """doc"""\n',
                           'pkg/d.py': '__docformat__ = x + "y"\n__docformat__ = "google"\n__docformat__: str\n', 'pkg/e.py': '__docformat__ = "  "\ndef f():\n    """doc"""\n', 'pkg/good.py': GOOD})
    add('imports-odd', {'pkg/__init__.py': 'from .. import x\nfrom ... import y\nfrom . import pkg\nfrom .a import a\nimport pkg.pkg.pkg\n', 'pkg/a.py': 'from . import a\nfrom .a import a\nfrom .......... import z\nimport pkg.a as a\nfrom pkg import a as b\na = a\n',
                         'pkg/b.py': 'from .a import *\nfrom .b import *\nimport b\nfrom b import b\nclass b(b): pass\n', 'pkg/good.py': GOOD})
    add('clash-module-package', {'pkg/__init__.py': '', 'pkg/a.py': 'class InModule: pass\n', 'pkg/a/__init__.py': 'class InPackage: pass\n', 'pkg/a/b.py': 'x = 1\n', 'pkg/good.py': GOOD})
    add('clash-name-module', {'pkg/__init__.py': 'class a: pass\ndef good(): pass\ngood = 1\n', 'pkg/a.py': 'x = 1\n', 'pkg/good.py': GOOD})
    add('empty-files', {'pkg/__init__.py': '', 'pkg/a.py': '', 'pkg/b.py': '\n\n\n', 'pkg/c.py': '"""only a docstring"""', 'pkg/d.py': '# only a comment', 'pkg/e.py': '\x0c\n', 'pkg/sub/__init__.py': '', 'pkg/good.py': GOOD})
    add('broken-init', {'pkg/__init__.py': 'def broken(:\n', 'pkg/good.py': GOOD, 'pkg/sub/__init__.py': 'x = (\n', 'pkg/sub/good2.py': GOOD}, broken=['pkg/__init__.py', 'pkg/sub/__init__.py'])
    add('broken-imported-first', {'pkg/__init__.py': 'from .zbroken import thing\nfrom .zbroken import *\nfrom . import zbroken\n', 'pkg/a.py': 'from pkg.zbroken import x\nimport pkg.zbroken\nclass A(pkg.zbroken.B): pass\n', 'pkg/zbroken.py': 'class B:\npass\n', 'pkg/good.py': GOOD}, broken=['pkg/zbroken.py'])
    add('reexport-root-package', {'pkg/__init__.py': 'from pkg.sub import *\nfrom .pkg import pkg\n__all__ = ["pkg", "sub", "other", "good"]\n', 'pkg/sub.py': 'import pkg.other\nimport other_root\nfrom . import good\nclass InSub: pass\n',
                                   'pkg/pkg.py': 'def pkg(): pass\n', 'pkg/other.py': 'from pkg import *\nfrom pkg.sub import *\n__all__ = ["pkg", "other_root"]\nimport other_root, pkg\n', 'pkg/good.py': GOOD,
                                   'other_root.py': 'from pkg import *\nimport pkg\n__all__ = ["pkg", "sub"]\nfrom pkg import sub\n'}, roots=['pkg', 'other_root.py'])
    add('reexport-modules', {'pkg/__init__.py': 'from . import a, b\nfrom .sub import deep\nfrom .a import b as c\n__all__ = ["a", "b", "deep", "c", "pkg", "__init__"]\n', 'pkg/a.py': 'from . import b\nfrom .b import a\n__all__ = ["b", "a"]\n',
                              'pkg/b.py': 'from . import a\nfrom pkg import sub\n__all__ = ["a", "sub"]\n', 'pkg/sub/__init__.py': 'from .. import a as deep\n__all__ = ["deep"]\n', 'pkg/sub/deep.py': 'from ... import pkg\n', 'pkg/good.py': GOOD})
    impl = ''.join(f'class Moved{i}:\n    """Doc. See L{{nosuch_target_{i}}}.\n\n    @unknownfield{i}: text\n    """\n    def meth(self, a):\n        """See L{{nosuch_member_{i}}}.\n\n        @param nosuchparam_{i}: x\n        """\n'
                   f'def moved_func{i}(a):\n    """`nosuch_func_target_{i}`\n\n    :param nosuchparam_f{i}: x\n    """\n' for i in range(6))
    add('reexport-with-docstring-problems', {'pkg/__init__.py': 'from ._impl import *\nfrom ._impl import Moved0 as Renamed\n__all__ = ' + repr([f'Moved{i}' for i in range(1, 6)] + [f'moved_func{i}' for i in range(6)] + ['Renamed']) + '\n',
                                              'pkg/_impl.py': impl, 'pkg/user.py': 'from pkg import Moved1\nfrom pkg._impl import Moved2\nclass U(Moved1, Moved2):\n    def meth(self, a): pass\n', 'pkg/good.py': GOOD})
    add('non-source-files-beside-modules', {'pkg/__init__.py': '', 'pkg/mod.py': GOOD, 'pkg/mod.pyc': b'\x00\x00\x00\x00garbage\xff', 'pkg/mod.pyo': b'\xffgarbage', 'pkg/mod.pyi': 'class OnlyInStub: ...\n',
                                             'pkg/mod.py~': 'def broken(:\n', 'pkg/mod.py.bak': 'def broken(:\n', 'pkg/mod.txt': 'not python', 'pkg/mod.cpython-312-x86_64-linux-gnu.so': b'\x7fELFgarbage',
                                             'pkg/other.pyw': 'class W: pass\n', 'pkg/README': 'x', 'pkg/sub/__init__.pyc': b'garbage', 'pkg/sub/orphan.py': 'x = 1\n', 'pkg/good.py': GOOD})
    add('implementer-of-non-class', {'pkg/__init__.py': '', 'pkg/a.py': 'from zope.interface import implementer, Interface\nclass I(Interface):\n    def meth(): "doc"\n    attr = 1\ndef func(): pass\nvalue = 3\n@implementer(func, value, I)\nclass C:\n    def meth(self): pass\n    attr = 2\n@implementer(I)\ndef g(): pass\n', 'pkg/good.py': GOOD})
    add('module-reexported-while-in-progress', {'pkg/__init__.py': '', 'pkg/a.py': 'from pkg import b\nclass X: pass\n', 'pkg/b.py': 'from pkg import a\nfrom . import c as renamed\n__all__ = ["a", "renamed"]\n', 'pkg/c.py': 'from . import b\nclass InC: pass\n', 'pkg/good.py': GOOD})
    add('regex-odd', {'pkg/__init__.py': '', 'pkg/a.py': 'import re\nR = re.compile("a{99999999999999}")\nS = re.compile("(?P<n>x){4294967296}")\nT = re.compile("(" * 150 + ")" * 150)\nU = re.compile(b"\\xff{2,1}")\nV = re.compile("\\\\" )\nW = re.compile("[" )\nX = re.compile("(?P<a>x)(?P<a>y)")\nY = re.compile("\\N{NO SUCH NAME}")\nZ = re.compile("x", 10**30)\ndef f(p=re.compile("a{99999999999999}"), q=re.compile(*args), r=re.compile()): pass\n', 'pkg/good.py': GOOD})
    add('doc-assignment-odd', {'pkg/__init__.py': '', 'pkg/a.py': 'class X:\n    pass\nX.__doc__ = "doc \\ud800 end"\ndef f(): pass\nf.__doc__ = "\\udfff"\nf.__doc__ = 1\nX.meth.__doc__ = "x"\nnosuch.__doc__ = "y"\nX.__doc__ += "more"\n__doc__ = "module \\ud800"\n', 'pkg/good.py': GOOD})
    add('directory-named-like-a-module', {'pkg/__init__.py': '', 'pkg/settings.py/README.txt': 'templates live here', 'pkg/settings.py/base.html': '<html/>', 'pkg/conf.py/__init__.txt': 'x',
                                           'pkg/real.py': 'x = 1\n', 'pkg/sub/__init__.py': '', 'pkg/sub/data.py/x.dat': 'x', 'pkg/good.py': GOOD})
    long_target = 'twisted.internet.interfaces.IReactorTime.callLater.and.some.more.dotted.parts.to.make.it.long'
    add('link-targets-odd', {'pkg/__init__.py': '', 'pkg/a.py': 'def f():\n    """See L{' + long_target + '\'s} and L{' + long_target + ' } and L{' + 'a.' * 40 + '!} and L{text <' + long_target + '$>}.\n\n'
                                                                 '    U{' + 'x' * 60 + ' <' + 'http://e.x/' + 'a/' * 40 + ' >} L{' + 'a_' * 50 + '-} C{' + 'w ' * 200 + '} L{' + '.' * 80 + '} L{' + long_target + '..}\n    """\n'
                                         'def g():\n    """`' + long_target + '\'s` and :py:obj:`' + long_target + '\'s` and `' + 'a.' * 60 + '!`_\n    """\n', 'pkg/good.py': GOOD})
    # section titles that repeat, next to the numbered forms a repeat would be given ("Example", "Example 1", "Example"), long ones, ones without
    # any identifier character: every docstring renderer must come back
    heads = ['Example', 'Example 1', 'Example', 'Example-1', 'Example', 'example', '???', '???', 'A rather long heading that reads like a whole sentence about many things ' * 2,
             'A rather long heading that reads like a whole sentence about many things ' * 2, 'Example 2', 'Example']
    epy_doc = 'Intro.\n\n' + ''.join(f'{h.strip()}\n{"=" * len(h.strip())}\n\ntext\n\n' for h in heads)
    add('section-titles-repeat', {'pkg/__init__.py': f'{epy_doc!r}\n', 'pkg/a.py': f'def f():\n    {epy_doc!r}\nclass K:\n    {epy_doc!r}\n',
                                  'pkg/r.py': f'__docformat__ = "restructuredtext"\n{epy_doc!r}\ndef f():\n    {epy_doc!r}\n', 'pkg/good.py': GOOD})
    add('overloads-with-call-decorators', {'pkg/__init__.py': '', 'pkg/a.py': 'from typing import overload\nimport typing as t\ndef register(k):\n    def deco(f): return f\n    return deco\n'
                                           'REG = {"k": register}\n@overload\n@register("str")\ndef f(a: str) -> str: ...\n@overload\n@REG["k"]("int")\ndef f(a: int) -> int: ...\n@t.overload\n@register(1)(2)\ndef f(a: bytes) -> bytes: ...\n'
                                           'def f(a):\n    "doc"\n    return a\nclass K:\n    @overload\n    @register("x")\n    def m(self, a: int) -> int: ...\n    @register("y")\n    @overload\n    def m(self, a: str) -> str: ...\n    def m(self, a):\n        "doc"\n',
                                           'pkg/good.py': GOOD})
    # types of documented variables that fail inside the renderer (characters XML cannot carry), in every markup
    add('docstring-types-unrenderable', {'pkg/__init__.py': '', 'pkg/e.py': '__docformat__ = "epytext"\nclass K:\n    """Doc.\n\n    @ivar v: d\n    @type v: in\ufffft\n    @cvar w: d\n    @type w: list of x\xa0y\n    """\n',
                                          'pkg/r.py': '__docformat__ = "restructuredtext"\nclass K:\n    """Doc.\n\n    :ivar v: d\n    :type v: in\ufffft\n    """\n"""Module.\n\n:var m: d\n:type m: in\ufffet\n"""\n',
                                          'pkg/g.py': '__docformat__ = "google"\nclass K:\n    """Doc.\n\n    Attributes:\n        v (in\ufffft): d\n        w (x\xa0y): d\n    """\n',
                                          'pkg/n.py': '__docformat__ = "numpy"\nclass K:\n    """Doc.\n\n    Attributes\n    ----------\n    v : in\ufffft\n        d\n    """\n', 'pkg/good.py': GOOD})
    add('reexport-own-package', {'pkg/__init__.py': '', 'pkg/a/__init__.py': 'x = 1\nclass InA: pass\n', 'pkg/a/b.py': 'from pkg import a\nfrom pkg.a import InA\nimport pkg\n__all__ = ["a", "InA", "pkg"]\n',
                                  'pkg/a/c.py': 'from .. import a as renamed\nfrom . import c\n__all__ = ["renamed", "c"]\n', 'pkg/good.py': GOOD})
    add('same-path-twice', {'pkg/__init__.py': '', 'pkg/good.py': GOOD}, roots=['pkg', 'pkg'])
    add('several-roots', {'pkg/__init__.py': '', 'pkg/good.py': GOOD, 'other/__init__.py': 'from pkg.good import Good\n', 'single.py': 'import pkg\nclass S(pkg.good.Good): pass\n'}, roots=['pkg', 'other', 'single.py'])
    add('roots-same-name', {'a/pkg/__init__.py': 'x = 1\n', 'b/pkg/__init__.py': 'y = 2\n', 'b/pkg/good.py': GOOD}, roots=['a/pkg', 'b/pkg'])
    add('odd-file-names', {'pkg/__init__.py': '', 'pkg/a b.py': 'x = 1\n', 'pkg/a-b.py': 'x = 1\n', 'pkg/class.py': 'x = 1\n', 'pkg/1x.py': 'x = 1\n', 'pkg/a.b.py': 'x = 1\n', 'pkg/__main__.py': 'x = 1\n', 'pkg/.hidden.py': 'def broken(:\n',
                            'pkg/x.pyi': 'x: int\n', 'pkg/UPPER.PY': 'x = 1\n', 'pkg/%41.py': 'x = 1\n', 'pkg/a#b.py': 'x = 1\n', 'pkg/q?.py': 'x = 1\n', 'pkg/index.py': 'class index: pass\n', 'pkg/good.py': GOOD})
    add('module-named-index', {'index.py': 'class index:\n    class html: pass\n', 'moduleIndex.py': 'x = 1\n', 'classIndex.py': 'class C: pass\n', 'nameIndex.py': '', 'all-documents.py': '', 'searchindex.py': ''},
        roots=['index.py', 'moduleIndex.py', 'classIndex.py', 'nameIndex.py', 'all-documents.py', 'searchindex.py'])
    add('single-module-root', {'single.py': GOOD}, roots=['single.py'])
    add('symlink-loop', {'pkg/__init__.py': '', 'pkg/good.py': GOOD}, symlinks={'pkg/loop': '.'})
    add('many-modules-400', {'pkg/__init__.py': '', **{f'pkg/m{i}.py': f'from .m{(i + 1) % 400} import *\nclass C{i}: pass\n' for i in range(400)}})
    add('big-module', {'pkg/__init__.py': '', 'pkg/big.py': ''.join(f'def f{i}(a, b={i}):\n    """Doc {i} L{{f{i + 1}}}"""\nV{i} = [{i}] * 3\n"""doc of V{i}"""\n' for i in range(3000)), 'pkg/good.py': GOOD})
    add('long-lines', {'pkg/__init__.py': '', 'pkg/a.py': 'X = "' + 'a' * 200_000 + '"\nY = [' + '1, ' * 50_000 + ']\ndef f(' + ', '.join(f'a{i}=1' for i in range(250)) + '):\n    """' + 'word ' * 40_000 + '"""\n', 'pkg/good.py': GOOD})
    add('long-identifier-200', {'pkg/__init__.py': '', 'pkg/a.py': 'class ' + 'C' * 200 + ':\n    def ' + 'm' * 200 + '(self): pass\n', 'pkg/good.py': GOOD})
    add('huge-int-literals', {'pkg/__init__.py': '', 'pkg/hexint.py': 'X = 0x' + 'f' * 5000 + '\n', 'pkg/binint.py': 'Y = 0b' + '1' * 20000 + '\ndef f(a=0o' + '7' * 6000 + '): pass\n',
                               'pkg/shift.py': 'Z = 1 << 100000\nW = -0x' + 'a' * 4000 + '\nclass C:\n    M = [0x' + 'f' * 5000 + ']\n', 'pkg/good.py': GOOD})
    add('literal-eval-odd', {'pkg/__init__.py': '__all__ = {[]: 1}\n', 'pkg/a.py': '__docformat__ = {[]: 1}\n', 'pkg/b.py': '__all__ = [{[]: 1}, {{}}, "x"]\nx = 1\n', 'pkg/c.py': 'def f(): pass\nf.__doc__ = {[]: 1}\nf.__doc__ = {{1}: 2}\n',
                              'pkg/d.py': 'import attr\n@attr.s(auto_attribs={[]: 1})\nclass A:\n    x: int = 1\n@attr.s(auto_attribs={{}})\nclass B: pass\n', 'pkg/e.py': '__all__ = ["a", *{[]: 1}]\n__docformat__ = [[]] * 3\n__all__ += {[]: 0}\n',
                              'pkg/good.py': GOOD})
    dfnames = ['_types', '_napoleon', '__init__', '_pyval_repr', 'doctest', '.', '..', 'a.b', 'epytext.x', 'plaintext ', ' plaintext', '../x', 'os', 'restructuredtext\x00', 'EPYTEXT', 'Google',
               'numpy en', '', '   ', '\n', 'é', 'a' * 300]
    dffiles: Dict[str, Any] = {'pkg/__init__.py': '', 'pkg/good.py': GOOD}
    for i, n in enumerate(dfnames):
        dffiles[f'pkg/df{i}.py'] = f'__docformat__ = {n!r}\ndef f():\n    """doc L{{x}} `y`"""\n'
    add('docformat-names', dffiles)
    add('decorated-twice', {'pkg/__init__.py': '', 'pkg/a.py': 'class C:\n    @staticmethod\n    def f(): pass\n    f = staticmethod(f)\n    @classmethod\n    def g(cls): pass\n    g = classmethod(g)\n    g = staticmethod(g)\n    def h(self): pass\n    h = classmethod(h)\n    h = classmethod(h)\n'
                                                        '    @property\n    def p(self): pass\n    p = staticmethod(p)\n    class K: pass\n    K = staticmethod(K)\n    v = 1\n    v = classmethod(v)\n    nosuch = staticmethod(nosuch)\n', 'pkg/good.py': GOOD})
    add('root-named-index', {'index.py': 'class index: pass\ndef f(): pass\n'}, roots=['index.py'])
    add('root-package-named-index', {'index/__init__.py': 'class C: pass\n', 'index/index.py': 'x = 1\n'}, roots=['index'])
    add('self-reexport', {'pkg/__init__.py': 'import pkg\nfrom pkg import pkg\nfrom . import *\n__all__ = ["pkg", "__init__", "__all__"]\n', 'pkg/m.py': 'import m\nfrom m import m\nfrom .m import m\n__all__ = ["m"]\n', 'pkg/good.py': GOOD})
    add('implementer-odd', {'pkg/__init__.py': '', 'pkg/a.py': 'from zope.interface import implementer, Interface, implementer_only, classImplementsOnly, provider\n@implementer(1)\nclass C: pass\n@implementer(lambda: 0, "x", C(), None, ..., *a, **k)\nclass D: pass\n@implementer()\nclass E: pass\n@implementer(E)\ndef f(): pass\n@provider(1)\nclass F(Interface(), Interface): pass\nclassImplementsOnly(1, 2)\nG = implementer(C)(D)\n', 'pkg/good.py': GOOD})
    add('huge-numbers', {'pkg/__init__.py': '', 'pkg/a.py': 'X = ' + '9' * 5000 + '\n', 'pkg/b.py': 'Y = 1e999\nZ = 0x' + 'f' * 3000 + '\nW = 10 ** 10 ** 10\nV = ' + '9' * 4000 + '\ndef f(a=' + '9' * 4299 + ', b=1e-999, c=1_0.0_1e1_0j): pass\n', 'pkg/good.py': GOOD}, broken=['pkg/a.py'])
    add('encodings', {'pkg/__init__.py': b'\xef\xbb\xbf"""bom"""\n', 'pkg/latin.py': b'# -*- coding: latin-1 -*-\n"""caf\xe9"""\nX = "\xe9"\n', 'pkg/crlf.py': b'"""doc"""\r\nclass C:\r\n    """d"""\r\n    x = 1\r\n', 'pkg/cr.py': b'"""doc"""\rclass C:\r    x = 1\r',
                       'pkg/utf16.py': b'\xff\xfe' + 'x = 1\n'.encode('utf-16-le'), 'pkg/badcookie.py': b'# coding: nosuchcodec\nx = 1\n', 'pkg/badutf8.py': b'x = "\xff\xfe"\n', 'pkg/nul.py': b'x = 1\n\x00\n', 'pkg/ctrlz.py': b'x = 1\n\x1a\ny = 2\n',
                       'pkg/formfeed.py': b'\x0cclass C:\n\x0c    x = 1\n', 'pkg/good.py': GOOD.encode()}, broken=['pkg/utf16.py', 'pkg/badcookie.py', 'pkg/badutf8.py', 'pkg/nul.py'])
    add('decorators-odd', {'pkg/__init__.py': '', 'pkg/a.py': 'import attr, typing, zope.interface\n@property\nclass P: pass\n@staticmethod\n@classmethod\n@property\ndef f(): pass\nclass C:\n    @property\n    @property\n    def p(self): pass\n    @p.setter\n    @p.deleter\n    def p(self): pass\n    @nosuch.setter\n    def q(self): pass\n    @typing.overload\n    class X: pass\n    @typing.overload\n    def o(self): pass\n    o = 1\n    @typing.overload\n    def o(self, a): pass\n@attr.s(auto_attribs=nosuch, kw_only=1, init=None, **kw)\nclass A:\n    x: int = attr.ib(default=attr.Factory(list), init=maybe)\n    y = attr.ib(1, 2, 3, type=)\n'.replace('type=)', 'type=int)'),
                           'pkg/b.py': 'import zope.interface as zi\n@zi.implementer(1, None, *x, nosuch, "str")\nclass I(zi.Interface, *bases, **kw):\n    a = zi.Attribute()\n    b = zi.Attribute(1, 2)\n    c = zi.Attribute(*x)\nzi.classImplements()\nzi.classImplements(I)\nzi.classImplements(nosuch, I, 3)\nclass J(I, I): pass\nclass K(K): pass\nclass L(M): pass\nclass M(L): pass\n', 'pkg/good.py': GOOD})
    add('deprecate-odd', {'pkg/__init__.py': '', 'pkg/a.py': 'from twisted.python.deprecate import deprecated, deprecatedProperty, deprecatedModuleAttribute\nfrom incremental import Version\n@deprecated()\ndef a(): pass\n@deprecated(Version())\ndef b(): pass\n@deprecated(Version("x", "a", None, *y), replacement=3)\ndef c(): pass\n@deprecated(Version(1, 2, 3, 4))\nclass D: pass\n@deprecated(nosuch, "a\\nb\\r\\x85c `x` <y>")\ndef e(): pass\ndeprecatedModuleAttribute()\ndeprecatedModuleAttribute(Version("t", 1, 2, 3), 5, __name__, 7)\ndeprecatedModuleAttribute(Version("t", 1, 2, 3), "m", "other", "name")\n@deprecated(Version("é\\ud800", 10**30, -1, 0))\ndef g(): pass\n', 'pkg/good.py': GOOD})
    add('annotations-odd', {'pkg/__init__.py': '', 'pkg/a.py': 'from typing import *\nx: "not (valid" = 1\ny: "" = 2\nz: "\\x00" = 3\nw: Final = 1\nv: Final[] = 2\n'.replace('Final[]', 'Final[()]') + 'u: ClassVar[Final[int]]\ndef f(a: "def", b: "1 +", *c: "**", d: 1 = 2, **e: lambda: 0) -> "-> x": pass\nclass C:\n    a: "C.a"\n    b: Optional["C", "D"] = None\n    def __init__(self, q: "?"):\n        self.q: "also bad" = q\n        self.r = self.r = self\n        self.__class__ = 1\n', 'pkg/good.py': GOOD})
    add('signature-odd', {'pkg/__init__.py': '', 'pkg/a.py': 'def f(a, /, b, *, c): pass\ndef g(*, a=1): pass\ndef h(a=(yield), b=lambda *a, **k: (a, k), c=[i for i in x], d=f"{x!r:>{w}}", e=..., f=-1j, g=not 1, h=x if y else z, i=await_, j=a@b): pass\nasync def k(*a: int, **b: str) -> None: pass\nclass C:\n    def __init__(): pass\n    def m(): pass\n    @classmethod\n    def n(): pass\n    @staticmethod\n    def o(self): pass\n    def p(self, self2, *self3): pass\nlam = lambda self: self\n', 'pkg/good.py': GOOD})
    return d


DIRECTED = _directed()


def _write_files(base: str, files: Dict[str, Any], symlinks: Optional[Dict[str, str]] = None) -> None:
    for rel, content in files.items():
        p = os.path.join(base, rel)
        os.makedirs(os.path.dirname(p), exist_ok=True)
        with open(p, 'wb') as f:
            f.write(content if isinstance(content, bytes) else content.encode('utf-8', 'surrogatepass'))
    for rel, target in (symlinks or {}).items():
        os.symlink(target, os.path.join(base, rel))


def _witness_files(files: Dict[str, Any], limit: int = 6000) -> Dict[str, str]:
    out = {}
    for k, v in files.items():
        s = v.decode('utf-8', 'backslashreplace') if isinstance(v, bytes) else v
        out[k] = s if len(s) <= limit else s[:limit // 2] + f'...[{len(s)} chars]...' + s[-200:]
    return out


def _run_generated(res: core.Res, label: str, files: Dict[str, Any], roots: List[str], fmt: str, broken: List[str],
                   symlinks: Optional[Dict[str, str]] = None, cli: bool = False) -> None:
    """writes the tree, runs it, applies the oracle; with broken files also the neighbour differential"""
    base = tempfile.mkdtemp(prefix='vf01-')
    try:
        _write_files(base, files, symlinks)
        paths = [os.path.join(base, p) for p in roots]
        w = {'files': _witness_files(files), 'roots': roots, 'docformat': fmt, 'case': label, 'symlinks': symlinks or {}}
        o = run_tree(paths, fmt)
        done = judge(res, label, paths, fmt, o, w, {os.path.realpath(os.path.join(base, b)) for b in broken})
        nfiles = len(files)
        if nfiles >= 2 or sum(len(str(v)) for v in files.values()) > 400:
            res.distinct(f'{label}/{fmt}')
        res.c('evaluations')
        if done and broken:
            # every surely-unparsable file must have been reported (and none silently dropped)
            from vf.mon import msgs
            texts = [m[1] for m in msgs.messages(o.system)]
            for b in broken:
                bp = os.path.join(base, b)
                if bp in input_files(paths) and not any(t.startswith(bp + ':') for t in texts):
                    res.v('C01:unparsable-not-reported', f'{label}: no message names the unparsable file {b}', **w)
            # unparsable-neighbour differential: the same tree without the broken files (an unparsable __init__.py is emptied instead)
            base2 = tempfile.mkdtemp(prefix='vf01n-')
            try:
                files2 = {k: (b'' if k.endswith('__init__.py') else None) if k in broken else v for k, v in files.items()}
                files2 = {k: v for k, v in files2.items() if v is not None}
                _write_files(base2, files2, symlinks)
                paths2 = [os.path.join(base2, p) for p in roots if os.path.exists(os.path.join(base2, p))]
                if paths2 and len(paths2) == len(paths):
                    o2 = run_tree(paths2, fmt)
                    if o2.exc is None and o2.system is not None:
                        res.c('neighbour_differentials')
                        bmods = [_modname(b, roots) for b in broken]
                        s1, s2 = _summary(o.system, [m for m in bmods if m]), _summary(o2.system, [m for m in bmods if m])
                        # an emptied __init__ still exists as an (empty) package on both sides
                        diff = sorted(set(s1.items()) ^ set(s2.items()))
                        if diff:
                            res.v('C01:neighbour-changes-good-files', f'{label}: objects of the good files differ with and without the unparsable siblings {broken}: {diff[:6]}', **w)
                        pages1 = {f for f in o.files if f.endswith('.html')}
                        pages2 = {f for f in o2.files if f.endswith('.html')}
                        bpages = {m + '.html' for m in bmods if m}
                        if (pages1 - bpages) != (pages2 - bpages):
                            res.v('C01:neighbour-changes-pages', f'{label}: pages differ with and without the unparsable siblings: {sorted((pages1 - bpages) ^ (pages2 - bpages))[:6]}', **w)
            finally:
                shutil.rmtree(base2, ignore_errors=True)
        if cli and o.exc is None:
            out = tempfile.mkdtemp(prefix='vf01c-')
            try:
                env = dict(os.environ, PYTHONPATH=core.repo_dir(), PYTHONWARNINGS='ignore')
                p = subprocess.run([core.PY, '-X', 'dev', '-m', 'pydoctor', '--html-output', out, '--project-name=p', f'--docformat={fmt}', '-q'] + paths,
                                   capture_output=True, text=True, timeout=600, env=env, cwd=base)
                res.c('cli_runs')
                if p.returncode != o.code:
                    res.v('C01:cli-differs', f'{label}: python -m pydoctor exits {p.returncode}, in-process run {o.code}: {p.stderr[-400:]}', **w)
                if 'Traceback (most recent call last)' in p.stderr:
                    res.v('C01:cli-traceback', f'{label}: python -m pydoctor printed a traceback: {p.stderr[-600:]}', **w)
            except subprocess.TimeoutExpired:
                res.c('cli_timeouts')
            finally:
                shutil.rmtree(out, ignore_errors=True)
    finally:
        shutil.rmtree(base, ignore_errors=True)


def _modname(rel: str, roots: List[str]) -> str:
    """module name of a file given relative to the base directory, for the roots used by the generated trees"""
    for root in roots:
        rdir = os.path.dirname(root)
        if rel == root or rel.startswith(root.rstrip('/') + '/'):
            sub = rel[len(rdir) + 1:] if rdir else rel
            parts = sub[:-3].split('/')
            if parts[-1] == '__init__':
                parts = parts[:-1]
            return '.'.join(parts)
    return ''


def _wild_tree(r: Any) -> Tuple[Dict[str, Any], List[str]]:
    from vf.gen import wild
    files: Dict[str, Any] = {}
    n = r.randint(1, 4)
    if r.random() < .75:
        files['pkg/__init__.py'] = wild.module_source(r, budget=120) if r.random() < .6 else ''
        for i in range(n):
            files[f'pkg/m{i}.py'] = wild.module_source(r)
        if r.random() < .4:
            files['pkg/sub/__init__.py'] = wild.module_source(r, budget=80)
            files['pkg/sub/deep.py'] = wild.module_source(r)
        return files, ['pkg']
    roots = []
    for i in range(n):
        files[f'm{i}.py'] = wild.module_source(r)
        roots.append(f'm{i}.py')
    return files, roots


def run_case(case: Dict[str, Any]) -> core.Res:
    from vf.gen import mut
    res = core.Res()
    kind = case['kind']
    if kind == 'corpus':
        p = case['path']
        for fmt in case['formats']:
            label = f"corpus:{os.path.basename(p)}"
            o = run_tree([p], fmt)
            judge(res, label, [p], fmt, o, {'path': p, 'docformat': fmt})
            res.distinct(f'{label}/{fmt}')
            res.c('evaluations')
            res.c('corpus_trees')
        res.sample({'tree': p, 'docformats': case['formats']})
    elif kind == 'wild':
        for j in range(case['n']):
            r = core.rng('C01', 'wild', case['seed'], case['k'], j)
            files, roots = _wild_tree(r)
            fmt = r.choice(FORMATS)
            broken: List[str] = []
            if r.random() < .3:
                bname = ('pkg/' if roots == ['pkg'] else '') + 'zz_broken.py'
                files[bname] = r.choice(mut.breakers(r))
                broken.append(bname)
                if roots != ['pkg']:
                    roots.append(bname)
            _run_generated(res, f"wild:{case['seed']}:{case['k']}:{j}", files, roots, fmt, broken, cli=(case['k'] % 20 == 0 and j == 0))
            res.c('wild_trees')
        res.sample({'tree': f"wild:{case['seed']}:{case['k']}", 'n': case['n']})
    elif kind == 'mut':
        from vf.gen import wild, corpus
        for j in range(case['n']):
            r = core.rng('C01', 'mut', case['seed'], case['k'], j)
            files = {}
            roots = ['pkg']
            files['pkg/__init__.py'] = r.choice(['', 'from .m0 import *\n', 'from . import m0, m1\n__all__ = ["m0"]\n'])
            files['pkg/good.py'] = GOOD
            broken = []
            for i in range(r.randint(1, 3)):
                if r.random() < .5:
                    src = wild.module_source(r, budget=150).encode('utf-8', 'surrogatepass')
                else:
                    cand = corpus.all_py_files(60_000)
                    try:
                        src = Path(r.choice(cand)).read_bytes() if cand else GOOD.encode()
                    except OSError:
                        src = GOOD.encode()
                data = mut.mutate(r, src)
                files[f'pkg/m{i}.py'] = data
                if not mut.parses(data):
                    broken.append(f'pkg/m{i}.py')
            if r.random() < .5:
                files['pkg/zz_broken.py'] = r.choice(mut.breakers(r))
                broken.append('pkg/zz_broken.py')
                if r.random() < .5:
                    files['pkg/__init__.py'] = files['pkg/__init__.py'] + 'from .zz_broken import x\nfrom .zz_broken import *\n'
            _run_generated(res, f"mut:{case['seed']}:{case['k']}:{j}", files, roots, r.choice(FORMATS), broken)
            res.c('mut_trees')
        res.sample({'tree': f"mut:{case['seed']}:{case['k']}", 'n': case['n']})
    elif kind == 'proj':
        from vf.gen import project
        for j in range(case['n']):
            r = core.rng('C01', 'proj', case['seed'], case['k'], j)
            spec = project.generate(r, project.Features.rendering())
            srcs = project.sources(spec, seed=(case['seed'], case['k'], j))
            files = {}
            roots = []
            for name, (is_pkg, text) in srcs.items():
                rel = name.replace('.', '/') + ('/__init__.py' if is_pkg else '.py')
                files[rel] = text
                if '.' not in name:
                    roots.append(name if is_pkg else rel)
            broken = []
            nonroot = [k for k in files if '/' in k and not k.endswith('__init__.py')]
            if nonroot and r.random() < .6:
                victim = r.choice(nonroot)
                data = files[victim].encode('utf-8', 'surrogatepass')
                for _ in range(20):
                    d2 = mut.mutate(r, data)
                    if not mut.parses(d2):
                        files[victim] = d2
                        broken.append(victim)
                        break
            _run_generated(res, f"proj:{case['seed']}:{case['k']}:{j}", files, roots, r.choice(FORMATS), broken)
            res.c('proj_trees')
        res.sample({'tree': f"proj:{case['seed']}:{case['k']}", 'n': case['n']})
    elif kind == 'directed':
        d = DIRECTED[case['name']]
        r = core.rng('C01', 'directed', case['seed'], case['name'])
        fmts = [FORMATS[(case['seed'] + len(case['name'])) % 5]] + (['epytext', 'restructuredtext'] if any(k in case['name'] for k in ('docstring', 'strings', 'link', 'markup', 'doc-', 'titles')) else [])
        for fmt in dict.fromkeys(fmts):
            _run_generated(res, f"directed:{case['name']}", d['files'], d.get('roots', ['pkg']), fmt, d.get('broken', []), d.get('symlinks'), cli=case['name'].startswith(('broken', 'encodings', 'strings')))
            res.c('directed_trees')
        res.sample({'tree': f"directed:{case['name']}"})
    return res
