"""C02 -- the object model is a coherent tree with a consistent name registry (invariants at hooks + at quiescence)."""
from __future__ import annotations

import traceback
from pathlib import Path
from typing import Any, Dict, List

from vf import core
from vf.gen import project, projrun

ID = 'C02'
LEVEL = 'exploration'
RULE = ('generated projects whose analysis history combines re-export moves (package and sibling re-exporters, renamed, '
        'star), duplicate definitions, moves of duplicated names, a class re-exported under the name of a submodule, '
        'import cycles, nested classes, documented-only field attributes and zope.interface declarations, each under '
        'several processing orders; plus real packages. Registry/tree invariants R1-R9 are evaluated by icontract '
        'postconditions after every addObject/handleDuplicate/reparent on the touched subtree and on the whole system '
        'after process(). Non-trivial: a move or a duplicate actually happened in the run; distinct by (project, order).')
ASSUME = ['transient states inside one reparent/handleDuplicate call are not judged (only the state at return)',
          'superseded duplicates ("name N") are exempt from R3 exactly as the statement says',
          'R7/R8 are judged only for systems post-processed once; R6 (bases once in the linearisation) only for classes without a reported mro error']
DECIDING = {'reparent_events': 50, 'duplicate_events': 50, 'addobject_events': 5000, 'objects_checked': 5000, 'classes_checked': 500,
            'implements_checked': 5, 'systems_checked': 100}
CPU_S = 900
PER = 10


def cases(tier: str, seed: int) -> List[Dict[str, Any]]:
    out: List[Dict[str, Any]] = []
    n = 400 if tier == 'quick' else 8000
    for k in range(0, n, PER):
        out.append({'part': 'G', 'seed': seed, 'k': k, 'n': PER, 'orders': 2 if tier == 'quick' else 5})
    from vf.gen import corpus
    r = core.rng(seed, 'C02', 'corpus')
    paths = corpus.pick(r, 10, max_bytes=800_000) if tier == 'quick' else [p for p, n_, size in corpus.roots() if size < 3_000_000]
    for must in ('json', 'unittest'):
        p = str(corpus.STDLIB / must)
        if p not in paths:
            paths.append(p)
    # the repository's own test packages: small, odd on purpose (name clashes, re-exports under module names, cycles)
    tp = Path(core.repo_dir()) / 'pydoctor' / 'test' / 'testpackages'
    if tp.is_dir():
        for d in sorted(tp.iterdir()):
            if (d / '__init__.py').is_file() and d.name not in ('syntax_error',):
                paths.append(str(d))
    for p in paths:
        out.append({'part': 'P', 'path': p})
    for name in DIRECTED:
        out.append({'part': 'D', 'name': name})
    # class hierarchies spread over modules that import each other (C05's generator): bases that are unresolved when their class
    # statement is visited, subclasses registered before their bases, class attributes assigned in the bodies
    nh = 200 if tier == 'quick' else 4000
    for k in range(0, nh, 20):
        out.append({'part': 'H', 'seed': seed, 'k': k, 'n': 20})
    return out


# hand-written projects: inputs that supply the same top-level name more than once
DIRECTED: Dict[str, Any] = {
    'same-root-module-twice': ({'a/util.py': 'class Old:\n    def m(self): pass\n', 'b/util.py': 'class New:\n    def m(self): pass\nclass Sub(New): pass\n', 'c/user.py': 'import util\nclass U(util.New): pass\n'},
                               ['a/util.py', 'b/util.py', 'c/user.py']),
    'same-root-package-twice': ({'a/pkg/__init__.py': 'class Old: pass\n', 'a/pkg/m.py': 'x = 1\n', 'b/pkg/__init__.py': 'class New: pass\n', 'b/pkg/n.py': 'from . import New\nclass S(New): pass\n'}, ['a/pkg', 'b/pkg']),
    'root-module-and-package': ({'a/util.py': 'class InModule: pass\n', 'b/util/__init__.py': 'class InPackage: pass\n', 'b/util/sub.py': 'y = 2\n'}, ['a/util.py', 'b/util']),
    'root-package-and-module': ({'a/util.py': 'class InModule: pass\n', 'b/util/__init__.py': 'class InPackage: pass\n', 'b/util/sub.py': 'y = 2\n'}, ['b/util', 'a/util.py']),
    'same-path-twice': ({'a/pkg/__init__.py': 'class C: pass\n', 'a/pkg/m.py': 'from . import C\nclass D(C): pass\n'}, ['a/pkg', 'a/pkg']),
}


def worker_init() -> None:
    from vf.mon import msgs, registry
    msgs.install()
    registry.install()


def _mech(rule: str, msg: str) -> str:
    """mechanism key of an invariant violation"""
    return f'C02:{rule}'


def _judge(res: core.Res, system: Any, label: str, witness: Dict[str, Any]) -> None:
    from vf.mon import registry
    res.c('systems_checked')
    problems = registry.check_system(system)
    seen = set()
    for rule, msg in problems:
        key = _mech(rule, msg)
        if (key, msg) in seen:
            continue
        seen.add((key, msg))
        res.v(key, f'{label}: {msg}', **witness)


def _permute(r: Any) -> Any:
    def order(system: Any) -> None:
        from vf.mon import sched
        sched.permute(system, r)
    return order


def run_case(case: Dict[str, Any]) -> core.Res:
    from vf.mon import registry
    res = core.Res()
    registry.counters.clear()
    if case['part'] == 'D':
        import shutil
        import tempfile
        files, roots = DIRECTED[case['name']]
        base = Path(tempfile.mkdtemp(prefix='vf02d-'))
        try:
            for rel, text in files.items():
                pth = base / rel
                pth.parent.mkdir(parents=True, exist_ok=True)
                pth.write_text(text)
            try:
                system = projrun.build_system([base / r for r in roots])
            except Exception as e:  # noqa: BLE001
                res.v(f'C02:analysis-raises:{type(e).__name__}', f'directed:{case["name"]}: analysis raised {e!r}', traceback=traceback.format_exc()[-2000:], sources=files)
                return res
            _judge(res, system, f'directed:{case["name"]}', {'project': case['name'], 'sources': files, 'roots': roots})
            res.distinct('D:' + case['name'])
            res.c('evaluations')
            res.c('directed_projects')
        finally:
            shutil.rmtree(base, ignore_errors=True)
        res.sample({'directed': case['name']})
        for k, v in registry.counters.items():
            res.c(k, v)
        return res
    if case['part'] == 'H':
        from pydoctor import model
        from vf.checks import c05
        for j in range(case['n']):
            mods = c05._gen_random(case['seed'], case['k'] + j, cyclic=True)
            r = core.rng('C02', 'H', case['seed'], case['k'] + j)
            for o in range(2):
                names = list(mods)
                r.shuffle(names)
                label = f"C02H:{case['seed']}:{case['k'] + j}/o{o}"
                system = model.System()
                system.options.verbosity = -10
                b = system.systemBuilder(system)
                try:
                    for nm in names:
                        b.addModuleString(mods[nm], nm)
                    b.buildModules()
                except Exception as e:  # noqa: BLE001
                    res.v(f'C02:analysis-raises:{type(e).__name__}', f'{label}: analysis raised {e!r}', traceback=traceback.format_exc()[-2000:], sources=mods)
                    continue
                _judge(res, system, label, {'project': label, 'sources': mods, 'order': names})
                res.c('evaluations')
                res.c('cyclic_hierarchy_systems')
                res.distinct(label)
        res.sample({'cyclic_hierarchies': f"{case['seed']}:{case['k']}"})
        for k, v in registry.counters.items():
            res.c(k, v)
        return res
    if case['part'] == 'P':
        try:
            system = projrun.build_system([Path(case['path'])])
        except Exception as e:  # noqa: BLE001
            res.c('corpus_analysis_raised')      # C01's business
            return res
        _judge(res, system, Path(case['path']).name, {'path': case['path']})
        res.distinct('P:' + case['path'])
        res.c('evaluations')
        res.sample({'package': case['path'], 'objects': len(system.allobjects)})
    else:
        specs = [project.generate(core.rng('C02', case['seed'], case['k'] + j), project.Features.history()) for j in range(case['n'])]
        with projrun.TmpProjects(specs, seed=('C02', case['seed'], case['k'])) as tp:
            for j, spec in enumerate(specs):
                for o in range(case['orders']):
                    label = f"C02:{case['seed']}:{case['k'] + j}/order{o}"
                    before = (registry.counters.get('reparent_events', 0), registry.counters.get('duplicate_events', 0))
                    try:
                        system = projrun.build_system(tp.roots[j], order=None if o == 0 else _permute(core.rng('order', label)))
                    except Exception as e:  # noqa: BLE001
                        res.v(f'C02:analysis-raises:{type(e).__name__}', f'{label}: analysis raised {e!r}', traceback=traceback.format_exc()[-2000:],
                              sources=project.sources(spec, seed=(('C02', case['seed'], case['k']), j)))
                        continue
                    _judge(res, system, label, {'project': label, 'sources': project.sources(spec, seed=(('C02', case['seed'], case['k']), j))})
                    res.c('evaluations')
                    after = (registry.counters.get('reparent_events', 0), registry.counters.get('duplicate_events', 0))
                    if after != before:
                        res.distinct(label)
        res.sample({'project': f"C02:{case['seed']}:{case['k']}", 'modules': [specs[0].modname(m.mid) for m in specs[0].mods]})
    for k, v in registry.counters.items():
        res.c(k, v)
    return res
