"""
pytest plugin: the repository's own test-suite as one more workload for the registry monitor (M-REG, C02) and the builder
scope-stack invariant (C19).  Load with  -p vf.pytest_plugin  (PYTHONPATH must contain /verif, /verif/.deps and the tree under test).

Every System created by a test is remembered; when the test ends, each one that went through postProcess() is checked with
registry.check_system() (R1-R9) together with whatever the icontract postconditions recorded.  Results are written as JSON to
$VF_SUITE_OUT.  Tests build odd, partial systems on purpose: what fires here is triaged by hand (tools/suite_under_monitors.py
groups it by rule and by the known-finding mechanisms), it is not a verdict by itself.
"""
from __future__ import annotations

import json
import os
from typing import Any, Dict, List

_systems: List[Any] = []
_results: Dict[str, Any] = {'tests': 0, 'systems_checked': 0, 'objects': 0, 'by_rule': {}, 'examples': {}, 'builder_stack': []}


def pytest_configure(config: Any) -> None:
    from vf.mon import msgs, registry
    msgs.install()
    registry.install()
    from pydoctor import model, astbuilder
    oinit = model.System.__init__

    def __init__(self: Any, *a: Any, **k: Any) -> None:
        oinit(self, *a, **k)
        _systems.append(self)
    model.System.__init__ = __init__  # type: ignore[method-assign]
    oproc = astbuilder.ASTBuilder.processModuleAST

    def processModuleAST(self: Any, mod_ast: Any, mod: Any) -> None:
        oproc(self, mod_ast, mod)
        if self._stack or self.current is not None:
            _results['builder_stack'].append(f'{mod.fullName()}: stack={self._stack!r} current={self.current!r}')
    astbuilder.ASTBuilder.processModuleAST = processModuleAST  # type: ignore[method-assign]


def pytest_runtest_teardown(item: Any, nextitem: Any) -> None:
    from vf.mon import registry
    _results['tests'] += 1
    for s in _systems:
        try:
            if not s.__dict__.get('_vf_postprocess'):
                continue
            problems = registry.check_system(s)
            _results['systems_checked'] += 1
            _results['objects'] += len(s.allobjects)
        except Exception as e:  # noqa: BLE001 -- a half-built system of a unit test
            problems = [('monitor-error', repr(e)[:200])]
        for rule, msg in problems:
            _results['by_rule'][rule] = _results['by_rule'].get(rule, 0) + 1
            ex = _results['examples'].setdefault(rule, [])
            if len(ex) < 5:
                ex.append({'test': item.nodeid, 'message': msg[:300]})
    del _systems[:]


def pytest_sessionfinish(session: Any, exitstatus: Any) -> None:
    out = os.environ.get('VF_SUITE_OUT')
    if out:
        # under xdist every worker writes its own file
        wid = os.environ.get('PYTEST_XDIST_WORKER', 'main')
        with open(f'{out}.{wid}', 'w') as f:
            json.dump(_results, f)
