"""Worker process: runs a shard of cases of one check against the tree under test."""
from __future__ import annotations

import importlib
import json
import sys
import traceback

from vf import core


def main() -> None:
    check_id, inp, outp, cpu_mult = sys.argv[1], sys.argv[2], sys.argv[3], float(sys.argv[4])
    core.setup_repo_path()
    mod = importlib.import_module(f'vf.checks.{check_id.lower()}')
    if hasattr(mod, 'worker_init'):
        mod.worker_init()
    budget = getattr(mod, 'CPU_S', 60) * cpu_mult
    todo = json.loads(open(inp).read())
    with open(outp, 'a') as out:
        for i, case in todo:
            try:
                # a case may carry its own (smaller) budget: a directed input known to finish in seconds is not given minutes to hang
                r = core.with_cpu_budget(mod.run_case, case, (case.get('cpu_s') * cpu_mult) if isinstance(case, dict) and case.get('cpu_s') else budget)
                if isinstance(r, core.Res):
                    r = r.out()
            except core.CpuTimeout:
                r = {'timeout': True, 'where': ''.join(traceback.format_exc()[-1500:])}
            except BaseException as e:  # harness error (checks catch what pydoctor raises themselves)
                if isinstance(e, KeyboardInterrupt):
                    raise
                r = {'error': ''.join(traceback.format_exception(type(e), e, e.__traceback__))[-4000:]}
            out.write(json.dumps([i, r], default=str) + '\n')
            out.flush()


if __name__ == '__main__':
    main()
