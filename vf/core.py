"""
Runner plumbing shared by all checks: case sharding over worker subprocesses, CPU-time
watchdogs, three-valued verdicts, known-finding classification, replay and evidence files.

A check module (vf/checks/cNN.py) provides:

    ID        = "C13"
    LEVEL     = "exploration"
    RULE      = "how cases are generated and what makes one distinct / non-trivial"
    ASSUME    = [...]                     # assumptions / trusted base
    DECIDING  = {"counter": minimum}      # monitors that must have observed >= minimum events
    CPU_S     = 20                        # CPU-second budget of one case
    HANG_IS_VIOLATION = False             # a confirmed budget overrun refutes the property?
    def cases(tier, seed) -> list[dict]   # JSON-able case descriptors (constructive generators)
    def run_case(case) -> dict            # executed in a worker; see result()
    def finish(agg, tier, seed) -> None   # optional: derive extra evidence from aggregated results
"""
from __future__ import annotations

import hashlib
import importlib
import json
import os
import random
import shutil
import signal
import subprocess
import sys
import tempfile
import time
from pathlib import Path
from typing import Any, Dict, List, Optional

VERIF = Path(__file__).resolve().parent.parent
PY = '/venv/bin/python'


def repo_dir() -> str:
    return os.environ.get('VERIF_REPO', '/repo')


def setup_repo_path() -> None:
    """Make `import pydoctor` pick up the tree under test (working tree of /repo by default)."""
    r = repo_dir()
    if r not in sys.path[:1]:
        sys.path.insert(0, r)
    sys.dont_write_bytecode = True


def rng(*parts: object) -> random.Random:
    return random.Random('/'.join(str(p) for p in parts))


def seed() -> int:
    try:
        return int(os.environ.get('VERIF_SEED', '0'))
    except ValueError:
        return 0


def jobs() -> int:
    try:
        return max(1, int(os.environ.get('VERIF_JOBS', '16')))
    except ValueError:
        return 16


class CpuTimeout(BaseException):
    """Raised by the CPU-time watchdog. Not an Exception: pydoctor's catch-alls must not eat it."""


def _alarm(signum: int, frame: object) -> None:
    raise CpuTimeout()


def with_cpu_budget(fn, arg, cpu_s: float):
    signal.signal(signal.SIGVTALRM, _alarm)
    signal.setitimer(signal.ITIMER_VIRTUAL, cpu_s)
    try:
        return fn(arg)
    finally:
        signal.setitimer(signal.ITIMER_VIRTUAL, 0)


def viol(key: str, msg: str, **witness: Any) -> Dict[str, Any]:
    """A violation record. `key` is a *mechanism* id (stable, never a hash of the case)."""
    return {'key': key, 'msg': msg, 'witness': witness}


class Res:
    """Result accumulator of one case."""

    def __init__(self) -> None:
        self.viol: List[Dict[str, Any]] = []
        self.cnt: Dict[str, int] = {}
        self.dkeys: List[str] = []
        self.dn = 0
        self.samples: List[Any] = []
        self.sets: Dict[str, List[str]] = {}
        self._perkey: Dict[str, int] = {}

    def c(self, name: str, n: int = 1) -> None:
        self.cnt[name] = self.cnt.get(name, 0) + n

    def v(self, key: str, msg: str, **witness: Any) -> None:
        n = self._perkey.get(key, 0)
        self._perkey[key] = n + 1
        if n < 3 and len(self._perkey) <= 80:
            self.viol.append(viol(key, msg, **witness))
        self.c('violations_raw')

    def distinct(self, key: str) -> None:
        self.dkeys.append(key)

    def setadd(self, name: str, value: str) -> None:
        self.sets.setdefault(name, [])
        if value not in self.sets[name] and len(self.sets[name]) < 2000:
            self.sets[name].append(value)

    def sample(self, s: Any) -> None:
        if len(self.samples) < 3:
            self.samples.append(s)

    def out(self) -> Dict[str, Any]:
        return {'viol': self.viol, 'cnt': self.cnt, 'dkeys': self.dkeys, 'dn': self.dn,
                'samples': self.samples, 'sets': self.sets}


# --------------------------------------------------------------------------------------------
# known findings

def load_known() -> List[Dict[str, Any]]:
    p = VERIF / 'known_findings.json'
    if not p.exists():
        return []
    return json.loads(p.read_text())['findings']


# --------------------------------------------------------------------------------------------
# runner

def _worker_env() -> Dict[str, str]:
    env = dict(os.environ)
    env['PYTHONPATH'] = f"{repo_dir()}:{VERIF}:{VERIF / '.deps'}"
    env.setdefault('PYTHONHASHSEED', '0')
    env['PYTHONDONTWRITEBYTECODE'] = '1'
    env['PYTHONWARNINGS'] = 'ignore'
    env['PYDOCTOR_VERIF'] = '1'
    env['VERIF_REPO'] = repo_dir()
    return env


def _run_shards(check_id: str, cases: List[Dict[str, Any]], idxs: List[int], nproc: int,
                wall_s: float, tmp: Path, tag: str, cpu_mult: float = 1.0) -> Dict[int, Dict[str, Any]]:
    shards: List[List[int]] = [[] for _ in range(max(1, min(nproc, len(idxs))))]
    for n, i in enumerate(idxs):
        shards[n % len(shards)].append(i)
    procs = []
    for s, shard in enumerate(shards):
        if not shard:
            continue
        inp = tmp / f'{tag}-{s}.in.json'
        outp = tmp / f'{tag}-{s}.out.jsonl'
        inp.write_text(json.dumps([[i, cases[i]] for i in shard]))
        errp = tmp / f'{tag}-{s}.err'
        p = subprocess.Popen([PY, '-X', 'faulthandler', '-m', 'vf.worker', check_id, str(inp), str(outp),
                              str(cpu_mult)],
                             cwd=str(VERIF), env=_worker_env(), stdout=subprocess.DEVNULL,
                             stderr=open(errp, 'wb'))
        procs.append((p, outp, errp, shard))
    deadline = time.time() + wall_s
    out: Dict[int, Dict[str, Any]] = {}
    for p, outp, errp, shard in procs:
        try:
            p.wait(timeout=max(1.0, deadline - time.time()))
        except subprocess.TimeoutExpired:
            p.kill()
            p.wait()
        if outp.exists():
            for line in outp.read_text().splitlines():
                try:
                    i, r = json.loads(line)
                except ValueError:
                    continue
                out[i] = r
        for i in shard:
            if i not in out:
                err = ''
                try:
                    err = errp.read_text(errors='replace')[-3000:]
                except OSError:
                    pass
                out[i] = {'dead': True, 'stderr': err, 'rc': p.returncode}
    return out


def run_check(check_id: str, tier: str, replay: Optional[str] = None) -> int:
    setup_repo_path()
    mod = importlib.import_module(f'vf.checks.{check_id.lower()}')
    sd = seed()
    t0 = time.time()
    tmp = Path(tempfile.mkdtemp(prefix=f'vf-{check_id}-'))
    try:
        return _run_check(mod, check_id, tier, sd, t0, tmp, replay)
    finally:
        shutil.rmtree(tmp, ignore_errors=True)


def _run_check(mod: Any, check_id: str, tier: str, sd: int, t0: float, tmp: Path,
               replay: Optional[str]) -> int:
    if replay:
        rp = json.loads(Path(replay).read_text())
        cases = [rp['case']]
    else:
        cases = list(mod.cases(tier, sd))
    wall = getattr(mod, 'WALL_S', {'quick': 900, 'thorough': 3 * 3600})[tier]
    results = _run_shards(check_id, cases, list(range(len(cases))), jobs(), wall, tmp, 'main')

    # second chance, alone, for cases whose worker died or that ran over their CPU budget
    redo = [i for i, r in results.items() if r.get('dead') or r.get('timeout')]
    inconclusive: List[str] = []
    hang_is_viol = getattr(mod, 'HANG_IS_VIOLATION', False)
    crash_is_viol = getattr(mod, 'CRASH_IS_VIOLATION', False)
    if redo:
        redo2 = _run_shards(check_id, cases, redo, min(jobs(), len(redo)), wall, tmp, 'redo', cpu_mult=4.0)
        for i in redo:
            r2 = redo2[i]
            if r2.get('dead'):
                if crash_is_viol:
                    results[i] = {'viol': [viol(f'{check_id}:worker-died', 'worker process died twice on this case',
                                               stderr=r2.get('stderr', ''), rc=r2.get('rc'))], 'cnt': {}}
                else:
                    inconclusive.append(f'case {i}: worker died twice rc={r2.get("rc")} {r2.get("stderr", "")[-300:]}')
                    results[i] = {'cnt': {}}
            elif r2.get('timeout'):
                if hang_is_viol:
                    results[i] = {'viol': [viol(f'{check_id}:cpu-budget', 'CPU budget exceeded twice (also alone, 4x budget)',
                                               where=r2.get('where', ''))], 'cnt': {}}
                else:
                    inconclusive.append(f'case {i}: CPU budget exceeded twice')
                    results[i] = {'cnt': {}}
            else:
                results[i] = r2

    agg: Dict[str, Any] = {'cnt': {}, 'dkeys': set(), 'dn': 0, 'samples': [], 'viol': [], 'sets': {},
                           'errors': []}
    for i in sorted(results):
        r = results[i]
        if r.get('error'):
            agg['errors'].append((i, r['error']))
            continue
        for k, n in r.get('cnt', {}).items():
            agg['cnt'][k] = agg['cnt'].get(k, 0) + n
        agg['dkeys'].update(r.get('dkeys', []))
        agg['dn'] += r.get('dn', 0)
        for k, vals in r.get('sets', {}).items():
            agg['sets'].setdefault(k, set()).update(vals)
        if len(agg['samples']) < 5:
            agg['samples'].extend(r.get('samples', [])[:max(0, 5 - len(agg['samples']))])
        for v in r.get('viol', []):
            agg['viol'].append((i, v))
    if hasattr(mod, 'finish'):
        mod.finish(agg, tier, sd)

    # harness errors (an exception in the check's own code) are never a verdict about pydoctor
    for i, e in agg['errors'][:5]:
        inconclusive.append(f'case {i}: harness error: {e[-1500:]}')

    known = [k for k in load_known() if k.get('property') == check_id]
    known_keys = {k['key']: k for k in known if k.get('status', 'known') == 'known'}
    seen_known: Dict[str, int] = {}
    new_viol: List[Any] = []
    for i, v in agg['viol']:
        if v['key'] in known_keys:
            seen_known[v['key']] = seen_known.get(v['key'], 0) + 1
        else:
            new_viol.append((i, v))

    for k, n in sorted(seen_known.items()):
        print(f"KNOWN-FINDING: property={check_id} {known_keys[k]['what']} [key={k}; seen {n}x this run]")

    keycount: Dict[str, int] = {}
    for i, v in new_viol:
        keycount[v['key']] = keycount.get(v['key'], 0) + 1
    rc = 0
    rdir = Path(os.environ.get('VERIF_REPLAY_DIR') or VERIF / 'replays') / check_id
    printed = set()
    for i, v in new_viol:
        rc = 1
        if v['key'] in printed or len(printed) >= int(os.environ.get('VERIF_MAXKEYS', '12')):
            continue
        printed.add(v['key'])
        rdir.mkdir(parents=True, exist_ok=True)
        h = hashlib.sha1(json.dumps([v['key'], cases[i]], sort_keys=True, default=str).encode()).hexdigest()[:10]
        path = rdir / f"{v['key'].replace(':', '_').replace('/', '_')}-{h}.json"
        path.write_text(json.dumps({'property': check_id, 'key': v['key'], 'msg': v['msg'],
                                    'witness': v['witness'], 'case': cases[i], 'seed': sd, 'tier': tier},
                                   indent=1, default=str))
        print(f"VIOLATION property={check_id} replay={path}")
        print(f"  key={v['key']} :: {v['msg'][:400]}")

    deciding = getattr(mod, 'DECIDING', {})
    if isinstance(deciding, dict) and tier in deciding and isinstance(deciding[tier], dict):
        deciding = deciding[tier]
    if not replay:
        for name, minimum in deciding.items():
            if agg['cnt'].get(name, 0) < minimum:
                inconclusive.append(f"deciding monitor '{name}' observed {agg['cnt'].get(name, 0)} < {minimum} events")

    dn = len(agg['dkeys']) + agg['dn']
    cov: Dict[str, Any] = {
        'evaluations': int(agg['cnt'].get('evaluations', len(cases))),
        'distinct_nontrivial': int(dn),
        'rule': getattr(mod, 'RULE', ''),
        'samples': agg['samples'][:5] or [cases[0] if cases else None],
        'cases': len(cases),
        'counters': {k: agg['cnt'][k] for k in sorted(agg['cnt'])},
        'distinct_sets': {k: len(v) for k, v in sorted(agg['sets'].items())},
        'known_findings_seen': seen_known,
        'inconclusive': inconclusive[:10],
    }
    if agg.get('exhaustive') is not None:
        cov['exhaustive'] = bool(agg['exhaustive'])
    for k, v in agg.get('extra', {}).items():
        cov[k] = v
    ev = {
        'property_id': check_id,
        'tier': tier,
        'seed': sd,
        'level': getattr(mod, 'LEVEL', 'exploration'),
        'coverage': cov,
        'assumptions': getattr(mod, 'ASSUME', []),
        'wall_s': round(time.time() - t0, 2),
        'violations': len(new_viol),
        'verdict': 'violated' if rc == 1 else ('inconclusive' if inconclusive else 'held on what was observed'),
        'repo': repo_dir(),
    }
    if not replay:
        # runs against a scratch copy (seeded change, mutant) must not overwrite the evidence of the real tree
        edir = Path(os.environ.get('VERIF_EVIDENCE_DIR') or VERIF / 'evidence')
        edir.mkdir(exist_ok=True)
        (edir / f'{check_id}.json').write_text(json.dumps(ev, indent=1, default=str) + '\n')
    print(f"{check_id} tier={tier} seed={sd} cases={len(cases)} evaluations={cov['evaluations']} "
          f"distinct_nontrivial={dn} violations={len(new_viol)} known={sum(seen_known.values())} "
          f"wall={ev['wall_s']}s")
    print('  counters: ' + ', '.join(f'{k}={v}' for k, v in sorted(agg['cnt'].items())))
    if keycount:
        print('  violation keys: ' + ', '.join(f'{k} x{n}' for k, n in sorted(keycount.items())))
    if rc == 1:
        return 1
    if inconclusive:
        for s in inconclusive[:10]:
            print(f'INCONCLUSIVE property={check_id} why={s}')
        return 2
    return 0
