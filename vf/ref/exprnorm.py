"""Normal form of Python expressions for comparing a displayed expression with its source (C15, C14):
positions and contexts removed; only the *documented* spelling changes are identified:
quote style / numeric formatting (constants compared by value), set([...]) <=> set display,
redundant parentheses (absent from the AST anyway), and for re.compile(...) calls the colouriser's own
regex-level respelling (arguments bound to the signature, patterns compared by their parse)."""
from __future__ import annotations

import ast
import re
from typing import Any, List, Optional, Tuple

try:
    import re._parser as sre_parse  # type: ignore[import-not-found]
except ImportError:  # pragma: no cover
    import sre_parse  # type: ignore[no-redef]


def _re_key(pat: Any) -> Any:
    """Semantic key of a regex pattern: flags + parsed tree; None if it does not compile."""
    try:
        c = re.compile(pat)
        tree = sre_parse.parse(pat)
        return ('re', type(pat).__name__, c.flags, repr(tree.data))
    except Exception:  # noqa: BLE001
        return None


class _Norm(ast.NodeTransformer):
    def visit_Call(self, n: ast.Call) -> Any:
        self.generic_visit(n)
        if isinstance(n.func, ast.Name) and n.func.id == 'set' and len(n.args) == 1 and not n.keywords \
                and isinstance(n.args[0], ast.List):
            return ast.Set(elts=n.args[0].elts)
        if isinstance(n.func, ast.Attribute) and isinstance(n.func.value, ast.Name) and n.func.value.id == 're' \
                and n.func.attr == 'compile':
            # bind to re.compile(pattern, flags=0)
            args = list(n.args)
            kw = {k.arg: k.value for k in n.keywords if k.arg}
            if len(args) <= 2 and all(k.arg in ('pattern', 'flags') for k in n.keywords):
                pat = args[0] if args else kw.get('pattern')
                flags = args[1] if len(args) > 1 else kw.get('flags')
                if isinstance(pat, ast.Constant) and isinstance(pat.value, (str, bytes)):
                    key = _re_key(pat.value)
                    if key is not None:
                        pat = ast.Constant(value=key)
                if pat is not None:
                    return ast.Call(func=n.func, args=[pat] + ([flags] if flags is not None else []), keywords=[])
        return n

    def visit_Constant(self, n: ast.Constant) -> Any:
        return ast.Constant(value=n.value)   # drops 'kind' (u'' prefix)


def norm(tree: ast.AST) -> ast.AST:
    tree = _Norm().visit(tree)
    for n in ast.walk(tree):
        for a in ('lineno', 'col_offset', 'end_lineno', 'end_col_offset', 'type_comment'):
            if hasattr(n, a):
                try:
                    delattr(n, a)
                except AttributeError:
                    pass
    return tree


def dump(tree: ast.AST) -> str:
    return ast.dump(tree)


def const_eq(a: Any, b: Any) -> bool:
    if type(a) is not type(b):
        return False
    if isinstance(a, float) and a != a:
        return b != b
    return bool(a == b)


def first_diff(e: Any, g: Any, path: str = '') -> Optional[Tuple[str, Any, Any]]:
    """First differing sub-node pair (expected, got) in a parallel walk; None if equal."""
    if isinstance(e, ast.AST) and isinstance(g, ast.AST):
        if type(e) is not type(g):
            return path, e, g
        if isinstance(e, ast.Constant):
            return None if const_eq(e.value, g.value) else (path, e, g)
        for f in e._fields:
            d = first_diff(getattr(e, f, None), getattr(g, f, None), f'{path}/{type(e).__name__}.{f}')
            if d:
                # a difference in arity of a child list is reported at this node
                if d[1] is _ARITY:
                    return path, e, g
                return d
        return None
    if isinstance(e, list) and isinstance(g, list):
        if len(e) != len(g):
            return path, _ARITY, _ARITY
        for i, (x, y) in enumerate(zip(e, g)):
            d = first_diff(x, y, f'{path}[{i}]')
            if d:
                return d
        return None
    if isinstance(e, ast.AST) or isinstance(g, ast.AST) or isinstance(e, list) or isinstance(g, list):
        return path, e, g
    return None if e == g else (path, e, g)


class _Arity:
    def __repr__(self) -> str:
        return '<arity>'


_ARITY = _Arity()


def equal(e: ast.AST, g: ast.AST) -> bool:
    return first_diff(e, g) is None
