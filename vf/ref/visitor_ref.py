"""
Executable reading of the contract documented in pydoctor/visitor.py (docstrings of the pruning
exceptions, of Visitor.walkabout, of When and of VisitorExt).

Given a tree, the pruning action the *main* visitor's visit raises at each node, and the timing of
each extension, produce the trace of (who, 'visit'|'depart', node) events the contract requires.
Only the relative order of main vs. each extension is specified, so traces are compared after
projection on each visitor, and order main/extension is checked per node.
"""
from __future__ import annotations

from typing import Callable, Dict, Hashable, Iterable, List, Sequence, Tuple

NONE, SC, SS, SN, SD = 'none', 'SkipChildren', 'SkipSiblings', 'SkipNode', 'SkipDeparture'
PRUNINGS = [NONE, SC, SS, SN, SD]
MAIN = 'main'

Event = Tuple[str, str, Hashable]


def expected_trace(root: Hashable, children: Callable[[Hashable], Iterable[Hashable]],
                   pruning: Callable[[Hashable], str], exts: Sequence[Tuple[str, str]],
                   departures: bool = True) -> List[Event]:
    """exts: [(ext id, 'BEFORE'|'AFTER'|'INNER'|'OUTTER')]; departures=False models Visitor.walk()."""
    out: List[Event] = []
    pre = [e for e, w in exts if w in ('BEFORE', 'OUTTER')]
    post = [e for e, w in exts if w in ('AFTER', 'INNER')]
    dpre = [e for e, w in exts if w in ('BEFORE', 'INNER')]
    dpost = [e for e, w in exts if w in ('AFTER', 'OUTTER')]

    def walk(n: Hashable) -> bool:
        for e in pre:
            out.append((e, 'visit', n))
        out.append((MAIN, 'visit', n))
        for e in post:
            out.append((e, 'visit', n))
        p = pruning(n)
        if p not in (SC, SN):
            # SkipSiblings / SkipDeparture: "The current node's children ... are not affected."
            for c in children(n):
                if walk(c):
                    break           # SkipSiblings raised at c: no more siblings to the right of c
        if departures:
            for e in dpre:
                out.append((e, 'depart', n))
            if p not in (SN, SD):
                out.append((MAIN, 'depart', n))
            for e in dpost:
                out.append((e, 'depart', n))
        return p == SS

    walk(root)
    return out


def project(trace: Sequence[Event]) -> Dict[str, List[Tuple[str, Hashable]]]:
    d: Dict[str, List[Tuple[str, Hashable]]] = {}
    for who, kind, n in trace:
        d.setdefault(who, []).append((kind, n))
    return d


def check_trace(actual: Sequence[Event], exts: Sequence[Tuple[str, str]]) -> List[str]:
    """Stack automaton over an observed trace (balance, nesting, at-most-once, main/extension order).
    Returns a list of problems. Independent of `expected_trace` (needs no pruning information), except
    that a main visit that raised SkipNode/SkipDeparture is announced with kind 'visit-nodepart'."""
    problems: List[str] = []
    when = dict(exts)
    stacks: Dict[str, List[Hashable]] = {}
    entered: Dict[str, set] = {}
    per_node: Dict[Hashable, List[Tuple[str, str]]] = {}
    for who, kind, n in actual:
        st = stacks.setdefault(who, [])
        if kind in ('visit', 'visit-nodepart'):
            if n in entered.setdefault(who, set()):
                problems.append(f'{who} enters {n} twice')
            entered[who].add(n)
            if kind == 'visit':
                st.append(n)
            seen = per_node.setdefault(n, [])
            if who == MAIN:
                for w2, k2 in seen:
                    if k2 == 'visit' and when.get(w2) in ('AFTER', 'INNER'):
                        problems.append(f'{w2}({when[w2]}) visited {n} before main')
                for e, w in exts:
                    if w in ('BEFORE', 'OUTTER') and (e, 'visit') not in seen:
                        problems.append(f'main visited {n} before {e}({w})')
            seen.append((who, 'visit'))
        else:
            if not st or st[-1] != n:
                problems.append(f'{who} departs {n} but its open node is {st[-1] if st else None}')
                if n in st:
                    while st and st[-1] != n:
                        st.pop()
                    st.pop()
            else:
                st.pop()
            seen = per_node.setdefault(n, [])
            if who == MAIN:
                for w2, k2 in seen:
                    if k2 == 'depart' and when.get(w2) in ('AFTER', 'OUTTER'):
                        problems.append(f'{w2}({when[w2]}) departed {n} before main')
                for e, w in exts:
                    if w in ('BEFORE', 'INNER') and (e, 'visit') in seen and (e, 'depart') not in seen:
                        problems.append(f'main departed {n} before {e}({w})')
            seen.append((who, 'depart'))
    for who, st in stacks.items():
        if st:
            problems.append(f'{who} never leaves {st[:4]}')
    # ordering of extension events relative to a main event that did happen, in the other direction
    for n, seen in per_node.items():
        idx = {ev: i for i, ev in enumerate(seen)}
        if (MAIN, 'visit') in idx:
            for e, w in exts:
                if w in ('AFTER', 'INNER') and (e, 'visit') in idx and idx[(e, 'visit')] < idx[(MAIN, 'visit')]:
                    problems.append(f'{e}({w}) visited {n} before main')
        if (MAIN, 'depart') in idx:
            for e, w in exts:
                if w in ('AFTER', 'OUTTER') and (e, 'depart') in idx and idx[(e, 'depart')] < idx[(MAIN, 'depart')]:
                    problems.append(f'{e}({w}) departed {n} before main')
    return problems
