"""
Reference matcher for qualified-name patterns, written from the five bullets of the manual
(pydoctor/qnmatch.py module docstring, docs/source/customize.rst) -- no regular expressions:

    **      matches everything (recursive)
    *       matches everything except "." (one level only)
    ?       matches any single character
    [seq]   matches any character in seq
    [!seq]  matches any char not in seq

everything else is literal; the whole name must match.
"""
from __future__ import annotations

from typing import List, Optional, Tuple

Token = Tuple[str, object]


def tokenize(pat: str) -> Optional[List[Token]]:
    """Return the token list, or None when the pattern uses a form the manual does not define
    (unclosed '[', empty set, ']' as first member, ranges, '^', backslash)."""
    toks: List[Token] = []
    i, n = 0, len(pat)
    while i < n:
        c = pat[i]
        if c == '*':
            if i + 1 < n and pat[i + 1] == '*':
                toks.append(('dstar', None))
                i += 2
            else:
                toks.append(('star', None))
                i += 1
        elif c == '?':
            toks.append(('one', None))
            i += 1
        elif c == '[':
            j = i + 1
            neg = False
            if j < n and pat[j] == '!':
                neg = True
                j += 1
            k = pat.find(']', j)
            if k == -1 or k == j:
                return None          # unclosed or empty set: not defined by the manual
            seq = pat[j:k]
            if '-' in seq or '^' in seq or '\\' in seq:
                return None
            toks.append(('nset' if neg else 'set', seq))
            i = k + 1
        elif c in '\\^':
            return None
        else:
            toks.append(('lit', c))
            i += 1
    return toks


def match_tokens(toks: List[Token], name: str) -> bool:
    n = len(name)
    pos = {0}
    for kind, arg in toks:
        new = set()
        if kind == 'lit':
            for p in pos:
                if p < n and name[p] == arg:
                    new.add(p + 1)
        elif kind == 'one':
            for p in pos:
                if p < n:
                    new.add(p + 1)
        elif kind == 'set':
            for p in pos:
                if p < n and name[p] in arg:  # type: ignore[operator]
                    new.add(p + 1)
        elif kind == 'nset':
            for p in pos:
                if p < n and name[p] not in arg:  # type: ignore[operator]
                    new.add(p + 1)
        elif kind == 'star':
            for p in pos:
                q = p
                new.add(q)
                while q < n and name[q] != '.':
                    q += 1
                    new.add(q)
        elif kind == 'dstar':
            if pos:
                new.update(range(min(pos), n + 1))
        pos = new
        if not pos:
            return False
    return n in pos


def ref_qnmatch(name: str, pat: str) -> Optional[bool]:
    toks = tokenize(pat)
    if toks is None:
        return None
    return match_tokens(toks, name)


def ref_privacy(full_name: str, short_name: str, rules: List[Tuple[str, str]]) -> str:
    """Privacy of an object per the manual. rules = [(LEVEL, pattern)] in the order given."""
    priv = 'PUBLIC'
    if short_name.startswith('_') and not (short_name.startswith('__') and short_name.endswith('__')):
        priv = 'PRIVATE'
    exact = [lvl for lvl, pat in rules if pat == full_name]
    if exact:
        return exact[-1]               # an exact rule wins over any pattern; the last given wins
    for lvl, pat in reversed(rules):   # among pattern rules the one given last wins
        if ref_qnmatch(full_name, pat):
            return lvl
    return priv
