"""Independent statement of pydoctor's documented page layout (docs: one page per module/package/class named after
its qualified name; members are anchors on their parent's page; a single root is the index page)."""
from __future__ import annotations

from typing import Any
from urllib.parse import quote


def ref_url(o: Any) -> str:
    from pydoctor import model
    page = o if isinstance(o, (model.Module, model.Class)) else o.parent
    roots = o.system.rootobjects
    if len(roots) == 1 and page is roots[0]:
        page_url = 'index.html'
    else:
        page_url = quote(page.fullName()) + '.html'
    if page is o:
        return page_url
    return page_url + '#' + quote(o.name)
