"""
Child-side boundary fault injection for C18: run the real CLI entry point (pydoctor.driver.main) in this fresh
process after perturbing the order in which the file system lists directory entries.
  VF_LISTING = normal | reverse | shuffle:<seed>
pydoctor itself is untouched; only os.listdir / os.scandir / Path.iterdir results are reordered.
"""
import os
import random
import sys


def install(mode: str) -> None:
    if mode == 'normal':
        return
    rnd = random.Random(mode)
    import pathlib

    def reorder(seq):
        seq = list(seq)
        if mode == 'reverse':
            seq.sort(key=lambda e: getattr(e, 'name', str(e)), reverse=True)
        else:
            rnd.shuffle(seq)
        return seq
    orig_listdir = os.listdir
    orig_scandir = os.scandir
    orig_iterdir = pathlib.Path.iterdir

    def listdir(path='.'):
        return reorder(orig_listdir(path))

    class _Scan:
        def __init__(self, path):
            self._it = orig_scandir(path)
            self._entries = None

        def __enter__(self):
            return self

        def __exit__(self, *a):
            self._it.close()

        def close(self):
            self._it.close()

        def __iter__(self):
            if self._entries is None:
                self._entries = reorder(list(self._it))
            return iter(self._entries)

    def scandir(path='.'):
        return _Scan(path)

    def iterdir(self):
        return iter(reorder(list(orig_iterdir(self))))
    os.listdir = listdir
    os.scandir = scandir
    pathlib.Path.iterdir = iterdir


if __name__ == '__main__':
    install(os.environ.get('VF_LISTING', 'normal'))
    from pydoctor.driver import main
    sys.exit(main(sys.argv[1:]))
