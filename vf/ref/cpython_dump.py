"""
Reference side for C03/C04/C06: import generated projects with CPython itself and dump what the interpreter binds.
Run as a script in a fresh interpreter:  python cpython_dump.py <out.json> <projdir> [<projdir> ...]
Each projdir holds one project (root packages/modules directly inside). Output: {projdir: dump or {'error': ...}}.
"""
from __future__ import annotations

import importlib
import inspect
import json
import os
import sys
import types
from typing import Any, Dict


def _info(v: Any, owner_is_class: bool) -> Dict[str, Any]:
    d: Dict[str, Any] = {}
    raw = v
    if isinstance(v, classmethod):
        d['kind'] = 'classmethod'
        v = v.__func__
    elif isinstance(v, staticmethod):
        d['kind'] = 'staticmethod'
        v = v.__func__
    elif isinstance(v, property):
        d['kind'] = 'property'
        d['fset'] = v.fset is not None
        d['fdel'] = v.fdel is not None
        d['doc'] = inspect.cleandoc(v.__doc__) if v.__doc__ is not None else None
        f = v.fget
        d['defmod'] = getattr(f, '__module__', None)
        d['qual'] = getattr(f, '__qualname__', None)
        return d
    elif isinstance(v, types.ModuleType):
        d['kind'] = 'module'
        d['modname'] = v.__name__
        return d
    elif isinstance(v, type):
        d['kind'] = 'class'
        d['is_exc'] = issubclass(v, BaseException)
    elif isinstance(v, types.FunctionType):
        d['kind'] = 'method' if owner_is_class else 'function'
    else:
        d['kind'] = 'value'
        d['type'] = type(v).__name__
        if isinstance(v, (list, tuple, set, frozenset)):
            d['elem'] = sorted({type(x).__name__ for x in v})
        if isinstance(v, dict):
            d['elem'] = [sorted({type(x).__name__ for x in v}), sorted({type(x).__name__ for x in v.values()})]
        return d
    if isinstance(v, types.FunctionType):
        d['async'] = inspect.iscoroutinefunction(v)
    d['defmod'] = getattr(v, '__module__', None)
    d['qual'] = getattr(v, '__qualname__', None)
    doc = getattr(v, '__doc__', None)
    d['doc'] = inspect.cleandoc(doc) if isinstance(doc, str) else None
    if isinstance(raw, type):
        d['mro'] = [f'{c.__module__}.{c.__qualname__}' for c in raw.__mro__]
        d['bases'] = [f'{c.__module__}.{c.__qualname__}' for c in raw.__bases__]
    return d


def _ns(obj: Any, is_class: bool, depth: int = 0) -> Dict[str, Any]:
    out: Dict[str, Any] = {}
    for k, v in list(vars(obj).items()):
        info = _info(v, is_class)
        if info.get('kind') == 'class' and depth < 4 and getattr(v, '__module__', None) is not None:
            # recurse only into classes defined here (by qualname prefix), not imported ones
            owner_qual = getattr(obj, '__qualname__', None)
            expect = (owner_qual + '.' if is_class else '') + v.__name__
            if v.__qualname__ == expect and v.__module__ == (obj.__module__ if is_class else obj.__name__):
                info['ns'] = _ns(v, True, depth + 1)
        out[k] = info
    return out


def dump_project(projdir: str) -> Dict[str, Any]:
    sys.path.insert(0, projdir)
    before = set(sys.modules)
    try:
        mods = []
        for root, dirs, files in os.walk(projdir):
            dirs[:] = sorted(d for d in dirs if os.path.exists(os.path.join(root, d, '__init__.py')))
            rel = os.path.relpath(root, projdir)
            pkg = '' if rel == '.' else rel.replace(os.sep, '.')
            if pkg and '__init__.py' in files:
                mods.append(pkg)
            for f in sorted(files):
                if f.endswith('.py') and f != '__init__.py' and (pkg == '' or '__init__.py' in files):
                    mods.append((pkg + '.' if pkg else '') + f[:-3])
        out: Dict[str, Any] = {'modules': {}}
        for name in mods:
            try:
                m = importlib.import_module(name)
            except BaseException as e:  # noqa: BLE001
                return {'error': f'import {name}: {type(e).__name__}: {e}'}
        for name in mods:
            m = sys.modules[name]
            doc = m.__doc__
            out['modules'][name] = {'doc': inspect.cleandoc(doc) if isinstance(doc, str) else None, 'ns': _ns(m, False),
                                    'all': list(getattr(m, '__all__', [])) if hasattr(m, '__all__') else None}
        return out
    finally:
        sys.path.remove(projdir)
        for k in set(sys.modules) - before:
            del sys.modules[k]
        importlib.invalidate_caches()


if __name__ == '__main__':
    sys.dont_write_bytecode = True
    res = {}
    for p in sys.argv[2:]:
        try:
            res[p] = dump_project(p)
        except BaseException as e:  # noqa: BLE001
            res[p] = {'error': f'{type(e).__name__}: {e}'}
    with open(sys.argv[1], 'w') as f:
        json.dump(res, f)
