"""G-EXPR: Python expression workload for C15/C14 -- templates with parenthesised holes, so that the text
fixes the tree shape independently of any pretty-printer."""
from __future__ import annotations

import itertools
from typing import Iterator, List, Tuple

NAMES = ['a', 'b', 'c']

LEAVES_LITERAL = [
    '1', '0', '0x1F', '0o17', '0b101', '10_000', '123456789012345678901234567890', '1.5', '1e10', '1e-07', '.5', '1e999',
    '2j', '1.5j', "'x'", '"it\'s"', "'a\"b'", "'both \\' and \"'", "'nl\\n2'", "'tab\\t\\\\'", "'é ü'", "'\\ud800'", "'\\x00\\x7f'",
    # a backslash directly in front of a quote, in values that hold one kind of quote only
    'b"\\\\\'"', 'b"a\\\\\'b"', '"\\\\\'"', "b'\\\\\"'", "'\\\\\"q'", 'b"\'\\\\"',
    "'\\x0012'", "'\\x007z'", "'a\\x00'", "'\\x009'", "'\\x01f0'", "'\\t1\\n2\\r3'", "b'\\x0012'", "b'\\x007'", "'\\x1b[0m'", "'\\\\x41'", "'\\N{BULLET}1'", "'\\u00e9\\u0301'",
    "''", "b'x'", 'b"it\'s"', 'b\'a"b\'', 'b\'both \\\' and "\'', '\'\'\'it\'s "q" \'\'\'', 'b"""q\'q"""',
"b'\\xff\\n'", "b''", "u'k'", "r'\\d+'", "'''tri\nple'''", '...', 'None', 'True', 'False', 'NotImplemented',
    "'a' 'b'", "'%s' % x" if False else "'%s'",
]

UNARY = ['-', '+', '~', 'not ']
BINARY = ['+', '-', '*', '/', '//', '%', '**', '<<', '>>', '|', '^', '&', '@']
BOOL = ['and', 'or']
CMP = ['==', '!=', '<', '<=', '>', '>=', 'is', 'is not', 'in', 'not in']

# forms: (name, template with {0} {1} {2} holes already parenthesised, number of holes)
FORMS: List[Tuple[str, str, int]] = []
for op in UNARY:
    FORMS.append((f'unary{op.strip()}', op + '({0})', 1))
for op in BINARY:
    FORMS.append((f'bin{op}', '({0}) ' + op + ' ({1})', 2))
for op in BOOL:
    FORMS.append((f'bool-{op}', '({0}) ' + op + ' ({1})', 2))
    FORMS.append((f'bool3-{op}', '({0}) ' + op + ' ({1}) ' + op + ' ({2})', 3))
for op in CMP:
    FORMS.append((f'cmp-{op}', '({0}) ' + op + ' ({1})', 2))
FORMS += [
    ('cmp-chain', '({0}) < ({1}) <= ({2})', 3),
    ('ifexp', '({0}) if ({1}) else ({2})', 3),
    ('lambda', 'lambda x: ({0})', 1),
    ('lambda-default', 'lambda x=({0}), *y, z=({1}), **k: x', 2),
    ('call', 'f(({0}), ({1}))', 2),
    ('call-func', '({0})(b)', 1),
    ('call-kw', 'f(a, k=({0}))', 1),
    ('call-star', 'f(*({0}), **({1}))', 2),
    ('call-noargs', '({0})()', 1),
    ('sub', '({0})[({1})]', 2),
    ('sub-slice', 'a[({0}):({1})]', 2),
    ('sub-slice3', 'a[({0}):({1}):({2})]', 3),
    ('sub-slice-empty', 'a[:({0})]', 1),
    ('sub-tuple', 'a[({0}), ({1})]', 2),
    ('sub-tuple1', 'a[({0}),]', 1),
    ('sub-tuple-slice', 'a[({0}):({1}), ::2]', 2),
    ('sub-star', 'a[*({0})]', 1),
    ('attr', '({0}).attr', 1),
    ('attr2', '({0}).x.y', 1),
    ('list', '[({0}), ({1})]', 2),
    ('list1', '[({0})]', 1),
    ('list-star', '[*({0}), ({1})]', 2),
    ('tuple', '(({0}), ({1}))', 2),
    ('tuple1', '(({0}),)', 1),
    ('tuple0', '()', 0),
    ('tuple-star', '(*({0}), ({1}))', 2),
    ('set', '{{({0}), ({1})}}', 2),
    ('set1', '{{({0})}}', 1),
    ('set-call', 'set([({0})])', 1),
    ('frozenset-call', 'frozenset([({0})])', 1),
    ('dict', '{{({0}): ({1})}}', 2),
    ('dict2', '{{({0}): 1, 2: ({1})}}', 2),
    ('dict-unpack', '{{**({0}), ({1}): 2}}', 2),
    ('dict0', '{{}}', 0),
    ('list0', '[]', 0),
    ('await', 'await ({0})', 1),
    ('yield', '(yield ({0}))', 1),
    ('yield-from', '(yield from ({0}))', 1),
    ('walrus', '(y := ({0}))', 1),
    ('fstring', "f'pre{{({0})}}post'", 1),
    ('fstring-fmt', "f'{{({0})!r:>10}}'", 1),
    ('listcomp', '[({0}) for x in ({1})]', 2),
    ('listcomp-if', '[x for x in ({0}) if ({1})]', 2),
    ('setcomp', '{{({0}) for x in ({1})}}', 2),
    ('dictcomp', '{{({0}): ({1}) for x in y}}', 2),
    ('genexp', '(({0}) for x in ({1}))', 2),
    ('genexp-call', 'f(({0}) for x in y)', 1),
    # a generator expression that is not the only argument keeps its parentheses
    ('genexp-call-kw', 'f((({0}) for x in y), key=({1}))', 2),
    ('genexp-call-more', 'f((({0}) for x in y), ({1}))', 2),
    ('genexp-call-dstar', 'f((x for x in ({0})), **({1}))', 2),
    ('re-compile', "re.compile(({0}))", 1),
    ('re-compile-flags', "re.compile('a+', ({0}))", 1),
]
FORM_NAMES = [f[0] for f in FORMS]


def fill(form: Tuple[str, str, int], args: List[str]) -> str:
    name, tpl, n = form
    return tpl.format(*args[:n]) if n else tpl.replace('{{', '{').replace('}}', '}')


def depth1() -> Iterator[Tuple[str, str]]:
    """every form over plain names"""
    for f in FORMS:
        yield f[0], fill(f, NAMES)


def depth2() -> Iterator[Tuple[str, str]]:
    """every form x every hole x every inner form (other holes filled with names)"""
    inner = list(depth1())
    for f in FORMS:
        for h in range(f[2]):
            for iname, isrc in inner:
                args = list(NAMES)
                args[h] = isrc
                yield f'{f[0]}[{h}]<-{iname}', fill(f, args)


CHAIN_OPS = [('bin' + op, '({0}) ' + op + ' ({1})', 2) for op in BINARY] + \
            [('bool-' + op, '({0}) ' + op + ' ({1})', 2) for op in BOOL] + \
            [('unary' + op.strip(), op + '({0})', 1) for op in UNARY] + \
            [('cmp-<', '({0}) < ({1})', 2), ('cmp-in', '({0}) in ({1})', 2), ('ifexp', '({0}) if ({1}) else ({2})', 3),
             ('lambda', 'lambda: ({0})', 1), ('await', 'await ({0})', 1), ('starcall', 'f(*({0}))', 1)]


def chains3() -> Iterator[Tuple[str, str]]:
    """operator chains of depth three: op1(op2(op3(leaf))) with every choice of operand position"""
    for f1 in CHAIN_OPS:
        for h1 in range(f1[2]):
            for f2 in CHAIN_OPS:
                for h2 in range(f2[2]):
                    for f3 in CHAIN_OPS:
                        a3 = fill(f3, ['x', 'y', 'z'])
                        args2 = ['p', 'q', 'r']
                        args2[h2] = a3
                        a2 = fill(f2, args2)
                        args1 = list(NAMES)
                        args1[h1] = a2
                        yield f'{f1[0]}[{h1}]<-{f2[0]}[{h2}]<-{f3[0]}', fill(f1, args1)


def leaves() -> Iterator[Tuple[str, str]]:
    for lit in LEAVES_LITERAL:
        yield f'leaf:{lit[:12]}', lit
        yield f'leaf-in-list:{lit[:12]}', f'[{lit}, a]'
        yield f'leaf-neg:{lit[:12]}', f'-({lit})' if lit[0].isdigit() or lit[0] == '.' else f'({lit},)'
        yield f'leaf-kw:{lit[:12]}', f'f(k={lit})'
        yield f'leaf-dict:{lit[:12]}', '{' + lit + ': ' + lit + '}'


RE_PATTERNS = [r'a+b*', r'(?P<n>x)|y', r'[a-z]{2,3}', r'\d+\.\d*', r'(?i)abc', r'(', r'[', r'a{2', r'\\', r"it's", r'(?<=a)b(?!c)', r'^$',
               r'(?:a|b)+?', r'\bfoo\b', r'[^\W\d_]', '\\n', r'(?P=n)', r'(?#c)x']


def regexes() -> Iterator[Tuple[str, str]]:
    for p in RE_PATTERNS:
        yield f're:{p}', f're.compile({p!r})'
        yield f're-flags:{p}', f're.compile({p!r}, re.I | re.M)'
        yield f're-bytes:{p}', f're.compile({p.encode()!r})'
    yield 're-kw', "re.compile(pattern='a', flags=re.I)"
    yield 're-nonconst', 're.compile(p)'
    yield 're-int', 're.compile(1)'
    yield 're-badargs', "re.compile('a', 1, 2)"


def random_expr(r, depth: int) -> str:
    if depth <= 0 or r.random() < .15:
        return r.choice(NAMES + LEAVES_LITERAL)
    f = r.choice(FORMS)
    return fill(f, [random_expr(r, depth - 1) for _ in range(3)])
