"""Helpers shared by the project-based checks: write specs, run CPython's dump, build a pydoctor System in-process."""
from __future__ import annotations

import json
import os
import shutil
import subprocess
import tempfile
from pathlib import Path
from typing import Any, Dict, List, Optional, Sequence

from vf import core
from vf.gen import project

DUMPER = str(Path(__file__).resolve().parent.parent / 'ref' / 'cpython_dump.py')


def cpython_dump(dirs: Sequence[str], timeout: float = 300) -> Dict[str, Any]:
    out = tempfile.mktemp(prefix='vfdump-', suffix='.json')
    try:
        env = {k: v for k, v in os.environ.items() if k not in ('PYTHONPATH',)}
        env['PYTHONDONTWRITEBYTECODE'] = '1'
        subprocess.run([core.PY, '-I', DUMPER, out] + list(dirs), check=False, timeout=timeout, env=env,
                       stdout=subprocess.DEVNULL, stderr=subprocess.DEVNULL)
        with open(out) as f:
            return json.load(f)  # type: ignore[no-any-return]
    except (OSError, ValueError, subprocess.TimeoutExpired):
        return {}
    finally:
        try:
            os.remove(out)
        except OSError:
            pass


def build_system(roots: Sequence[Path], args: Sequence[str] = (), order: Optional[Any] = None) -> Any:
    """pydoctor System for the given roots, analysed in-process through the real front door of the options parser.
    `order`, if given, is called with the system after the modules were added and before they are processed
    (schedule injection at the boundary: permutes system.unprocessed_modules)."""
    from pydoctor import model
    from pydoctor.options import Options
    opts = Options.from_args(list(args) + ['--project-name=proj'])
    opts.verbosity = -10
    system = opts.systemclass(opts)
    system.projectname = 'proj'
    b = system.systemBuilder(system)
    for p in roots:
        b.addModule(Path(p))
    if order is not None:
        order(system)
    b.buildModules()
    return system


class TmpProjects:
    """context manager writing a list of specs under one temp dir: .dirs[i] is the project dir of specs[i]"""

    def __init__(self, specs: List[project.Spec], seed: Any = 0, same_print_seed: bool = False) -> None:
        self.specs = specs
        self.seed = seed
        self.same_print_seed = same_print_seed

    def __enter__(self) -> 'TmpProjects':
        self.base = Path(tempfile.mkdtemp(prefix='vfproj-'))
        self.dirs: List[Path] = []
        self.roots: List[List[Path]] = []
        for i, s in enumerate(self.specs):
            d = self.base / f'p{i}'
            d.mkdir()
            self.roots.append(project.write(s, d, seed=(self.seed, 0 if self.same_print_seed else i)))
            self.dirs.append(d)
        return self

    def __exit__(self, *a: Any) -> None:
        shutil.rmtree(self.base, ignore_errors=True)
