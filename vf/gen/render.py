"""Run the real driver in-process on a written project and keep both the live System and the output directory."""
from __future__ import annotations

import contextlib
import io
import os
from pathlib import Path
from typing import Any, List, Optional, Sequence, Tuple


def render(roots: Sequence[Path], outdir: str, args: Sequence[str] = (), order: Optional[Any] = None) -> Tuple[Any, int]:
    """get_system + make exactly as driver.main does (so that the system stays available to the monitors);
    returns (system, exit code as main() would compute it)."""
    from pydoctor import driver
    from pydoctor.options import Options
    argv = ['--html-output', outdir, '--project-name=proj', '--buildtime=2020-01-01 00:00:00'] + list(args) + [str(r) for r in roots]
    options = Options.from_args(argv)
    options.verbosity = -10
    buf = io.StringIO()
    with contextlib.redirect_stdout(buf):
        if order is None:
            system = driver.get_system(options)
        else:
            from pydoctor import model
            orig = model.System.process

            def process(self: Any) -> None:
                order(self)
                return orig(self)
            model.System.process = process  # type: ignore[method-assign]
            try:
                system = driver.get_system(options)
            finally:
                model.System.process = orig  # type: ignore[method-assign]
        driver.make(system)
    code = 0
    if system.parse_errors['docstring'] or any(system.parse_errors.values()):
        code = 2
    if system.violations and options.warnings_as_errors:
        code = 3
    return system, code
