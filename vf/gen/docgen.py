"""
G-DOC: structure-aware docstring generator. A document is a tree of paragraphs of unique word tokens (w000123),
inline markup, nested bullet/enumerated lists, literal blocks, doctest blocks, sections and fields; it is serialised
to epytext, reStructuredText, Google and NumPy layouts and carries ground truth: token order of the body, exact text of
every verbatim block under that markup's own rules, and which tokens belong to which field.

Each serializer rule is written next to the sentence of the markup manual it implements.
"""
from __future__ import annotations

from dataclasses import dataclass, field
from typing import Any, Dict, List, Optional, Tuple

LIT_POOL = ['@param x: y', '- z', '>>> q', 'B{{x}}', '**x**', ':param q: r', '1. n', 'Title', '====', 'plain <x> & "q"', "it's", 'a::', '  ', '| pipe', '.. note:: n', '\\back',
            'L{{link}}', '`ref`_', '@@', '{{}}', 'x = [1,', '    deeper', 'tab']


@dataclass
class Expect:
    body: List[str] = field(default_factory=list)              # tokens in visible order (everything outside the field table)
    verbatim: List[Tuple[str, str]] = field(default_factory=list)   # (kind, exact text)
    fields: List[Tuple[str, Optional[str], List[str]]] = field(default_factory=list)   # (label prefix, key, tokens)
    warned: List[str] = field(default_factory=list)            # tags that must be reported (unknown fields)
    bare_literals: List[str] = field(default_factory=list)     # first tokens of literal blocks that are the only continuation of their field entry


class Gen:
    def __init__(self, r: Any, fmt: str) -> None:
        self.r = r
        self.fmt = fmt
        self.n = r.randrange(100000, 900000)
        self.exp = Expect()

    def tok(self) -> str:
        self.n += 1
        return f'w{self.n:06d}'

    # ---- inline -------------------------------------------------------------------------------------
    def inline(self, sink: List[str]) -> str:
        r, fmt = self.r, self.fmt
        k = r.random()
        t = self.tok()
        sink.append(t)
        if k < .7:
            return t
        if fmt == 'epytext':
            m = r.choice(['B', 'I', 'C'])
            if r.random() < .25:
                t2 = self.tok()
                sink.append(t2)
                m2 = r.choice(['B', 'I', 'C'])
                return f'{m}{{{t} {m2}{{{t2}}}}}'            # nested inline markup is allowed in epytext
            return f'{m}{{{t}}}'
        m = r.choice(['**', '*', '``'])
        return f'{m}{t}{m}'                                   # reST: start-string after whitespace, end-string before whitespace

    def para_lines(self, sink: List[str], nmin: int = 1, nmax: int = 9) -> List[str]:
        r = self.r
        pieces = [self.inline(sink) for _ in range(r.randint(nmin, nmax))]
        lines: List[str] = []
        cur: List[str] = []
        for p in pieces:
            cur.append(p)
            if r.random() < .3:
                lines.append(' '.join(cur))
                cur = []
        if cur:
            lines.append(' '.join(cur))
        return lines

    # ---- blocks -------------------------------------------------------------------------------------
    def blocks(self, indent: int, depth: int, sink: List[str], top: bool, allow_sections: bool) -> List[str]:
        r = self.r
        out: List[str] = []
        n = r.randint(1, 4) if depth else r.randint(2, 6)
        prev = None
        for i in range(n):
            kinds = ['para', 'para', 'para+lit', 'bullets', 'enum', 'doctest']
            if depth >= 2:
                kinds = ['para', 'para+lit', 'bullets']
            if self.fmt in ('google', 'numpy') and depth == 0:
                kinds = ['para', 'para', 'para+lit', 'bullets', 'enum', 'doctest']
            if self.fmt != 'epytext' and depth == 0 and top:
                kinds = kinds + ['version']
            if self.fmt == 'restructuredtext' and depth == 0 and top:
                kinds = kinds + ['codeblock']
            k = r.choice(kinds) if i else 'para'             # every container starts with a paragraph
            if prev in ('bullets', 'enum') and k in ('bullets', 'enum'):
                k = 'para'        # two lists in a row would read as one list / a nested list
            if self.fmt == 'epytext' and prev == 'para+lit' and k in ('bullets', 'enum'):
                k = 'para'        # epytext: an indented list right after a literal block would still be part of that block
            if out:
                out.append('')
            pad = ' ' * indent
            if k in ('para', 'para+lit'):
                lines = self.para_lines(sink)
                if k == 'para+lit':
                    # epytext / reST: a paragraph ending in "::" introduces a literal block: the following lines that are
                    # indented more than the paragraph; it ends at the first line indented as little as the paragraph.
                    lines[-1] += '::'
                out += [pad + ln for ln in lines]
                if k == 'para+lit':
                    out.append('')
                    lt = self.tok()
                    nl = r.randint(1, 4)
                    base = indent + r.choice([2, 4, 6])
                    raw = []
                    for j in range(nl):
                        extra = r.choice([0, 0, 2, 4]) if j else r.choice([0, 0, 3])
                        content = ((lt + ' ' if j == 0 else '') + r.choice(LIT_POOL).replace('{{', '{').replace('}}', '}').strip()).rstrip() or 'x'
                        raw.append(' ' * (base + extra) + content)      # no trailing blanks on verbatim lines
                    out += raw
                    sink.append(lt)
                    if self.fmt == 'epytext':
                        # epytext keeps the indentation of the lines of a literal block relative to the paragraph that introduces it
                        text = '\n'.join(x[indent:] for x in raw)
                    else:
                        # docutils removes the indentation common to all lines of the block
                        m = min(len(x) - len(x.lstrip(' ')) for x in raw)
                        text = '\n'.join(x[m:] for x in raw)
                    self.exp.verbatim.append(('literal', text))
            elif k in ('bullets', 'enum'):
                if self.fmt == 'epytext':
                    # epytext: "Lists must be indented" relative to the block that contains them
                    pad = ' ' * (indent + r.choice([1, 2, 4]))
                nitems = r.randint(1, 3)
                need_blank = False
                for j in range(nitems):
                    if j and (need_blank or r.random() < .4):
                        out.append('')          # (a doctest or literal block at the end of the previous item must be closed by a blank line)
                    need_blank = False
                    bullet = '- ' if k == 'bullets' else f'{j + 1}. '
                    lines = self.para_lines(sink, 1, 5)
                    # list item: the bullet, then the text; continuation lines are aligned with the text
                    out.append(pad + bullet + lines[0])
                    out += [pad + ' ' * len(bullet) + ln for ln in lines[1:]]
                    if depth < 2 and r.random() < .35:
                        out.append('')
                        out += self.blocks(len(pad) + len(bullet), depth + 1, sink, False, False)
                        need_blank = True
            elif k == 'codeblock':
                # reST: ".. code:: python" / ".. python::" followed by a blank line and an indented block, reproduced verbatim
                ct = self.tok()
                sink.append(ct)
                code = [f'{ct} = 1', f'def  spaced{r.randint(1, 9)}(a,  b=1):', '    return   a', 'class   Aligned:', f'    x  =  "{ct[:3]}"'][:r.randint(2, 5)]
                lang = r.choice(['.. code:: python', '.. python::', '.. code::', '.. code:: bash', '.. code-block:: json', '.. code:: console', '.. code-block:: text', '.. code-block:: python3'])
                out.append(pad + lang)
                out.append('')
                out += [pad + '   ' + ln for ln in code]
                self.exp.verbatim.append(('code', '\n'.join(code)))
            elif k == 'version':
                # reST: ".. versionadded:: <version> [text on the directive line]" followed by an optional indented body;
                # both the text on the directive line and the body belong to the description
                d = r.choice(['versionadded', 'versionchanged', 'deprecated'])
                inline_toks = [self.tok() for _ in range(r.randint(0, 3))]
                sink.extend(inline_toks)
                out.append(pad + f'.. {d}:: {r.randint(1, 9)}.{r.randint(0, 9)}' + (' ' + ' '.join(inline_toks) if inline_toks else ''))
                if r.random() < .7:
                    if r.random() < .5 or not inline_toks:
                        out.append('')
                    for ln in self.para_lines(sink, 1, 5):
                        out.append(pad + '   ' + ln)
                    if r.random() < .4:
                        out.append('')
                        for ln in self.para_lines(sink, 1, 4):
                            out.append(pad + '   ' + ln)
            elif k == 'doctest':
                dt = self.tok()
                sink.extend([dt, dt])          # the token occurs in two source lines of the example
                body = [f'>>> {dt} = {r.randint(1, 99)}', f'>>> print({dt})', f'{r.randint(1, 99)}']
                if r.random() < .4:
                    body.insert(1, '... # cont')
                if r.random() < .35:
                    # examples are reproduced character for character: irregular spacing inside them is part of the text
                    body[1:1] = [f'>>> def  spaced{r.randint(1, 9)}(a,  b=1):  return  a', f'>>> class   Aligned:   x  =  1', '>>> x   =   [1,2 ,3]']
                if r.random() < .3:
                    body.append('  indented <output> & more')
                # doctest block: starts with ">>> " after a blank line, ends at the next blank line
                out += [pad + ln for ln in body]
                self.exp.verbatim.append(('doctest', '\n'.join(body)))
            prev = k
        return out

    def sections(self, sink: List[str]) -> List[str]:
        r = self.r
        out = self.blocks(0, 0, sink, True, True)
        if self.fmt in ('epytext', 'restructuredtext') and r.random() < .5:
            for s in range(r.randint(1, 2)):
                title_toks = [self.tok() for _ in range(r.randint(1, 3))]
                sink.extend(title_toks)
                title = ' '.join(title_toks)
                # section heading: one line of text underlined with '=' (level 1) over its whole length, at indentation 0
                out += ['', title, '=' * len(title), '']
                out += self.blocks(0, 1, sink, True, False)
                if r.random() < .4:
                    t2 = [self.tok()]
                    sink.extend(t2)
                    out += ['', t2[0], '-' * len(t2[0]), '']
                    out += self.blocks(0, 1, sink, True, False)
        return out

    # ---- fields -------------------------------------------------------------------------------------
    def field_body(self, sink: List[str]) -> List[List[str]]:
        """list of paragraphs, each a list of lines; a paragraph given as ['<LIT>', rel-line, ...] is a literal block"""
        r = self.r
        with_lit = r.random() < .25
        if with_lit and self.fmt != 'epytext' and r.random() < .5:
            paras = [[' '.join(self.inline(sink) for _ in range(r.randint(1, 4)))]]     # one-line introduction on the field line
        else:
            paras = [self.para_lines(sink, 1, 6)]
        if with_lit:
            if len(paras[0]) < 2 and self.fmt == 'epytext':
                # epytext measures a field paragraph's indentation on its continuation lines: the paragraph that
                # introduces the literal block needs one, otherwise everything indented after it belongs to the block
                paras[0] = paras[0] + [self.inline(sink)]
            # a literal block inside the field body, then the body goes on at the normal continuation indentation
            paras[0][-1] += '::'
            lt = self.tok()
            sink.append(lt)
            rel = [lt + ' ' + r.choice(LIT_POOL).replace('{{', '{').replace('}}', '}').strip()]
            for _ in range(r.randint(0, 2)):
                rel.append(' ' * r.choice([0, 2, 4]) + (r.choice(LIT_POOL).replace('{{', '{').replace('}}', '}').strip() or 'x'))
            rel = [x.rstrip() or 'x' for x in rel]
            paras.append(['<LIT>'] + rel)
            if self.fmt == 'google' and r.random() < .5:
                self.exp.bare_literals.append(lt)
            else:
                # (google: the literal block may be all there is after the introducing line -- its lines are then the only continuation lines)
                paras.append(self.para_lines(sink, 1, 4))
        elif r.random() < .25:
            paras.append(self.para_lines(sink, 1, 4))
        return paras

    def emit_body(self, head: str, cont: int, paras: List[List[str]], out: List[str]) -> None:
        """field body: first line after `head`, continuation lines / further paragraphs at indentation `cont`"""
        pad = ' ' * cont
        out.append(head + paras[0][0])
        out.extend(pad + ln for ln in paras[0][1:])
        for p in paras[1:]:
            out.append('')
            if p and p[0] == '<LIT>':
                lead = 2 if self.fmt == 'epytext' else 4
                raw = [pad + ' ' * lead + ln for ln in p[1:]]
                out.extend(raw)
                if self.fmt == 'epytext':
                    text = '\n'.join(x[cont:] for x in raw)      # relative to the (continuation lines of the) introducing paragraph
                else:
                    m = min(len(x) - len(x.lstrip(' ')) for x in raw)
                    text = '\n'.join(x[m:] for x in raw)
                self.exp.verbatim.append(('literal', text))
            else:
                out.extend(pad + ln for ln in p)

    def fields_epy_rst(self) -> List[str]:
        r, fmt = self.r, self.fmt
        out: List[str] = []
        pool = [('param', 'a'), ('param', 'b'), ('param', 'args'), ('param', 'kw'), ('type', 'a'), ('type', 'kw'), ('type', 'args'), ('return', None), ('rtype', None), ('raise', 'ValueError'),
                ('raise', 'KeyError'), ('note', None), ('see', None), ('author', None), ('since', None), ('keyword', 'extra'), ('custom', 'z'), ('warns', 'UserWarning'),
                ('yield', None), ('ytype', None),
                # fields that may be given several times, and field names docutils knows as bibliographic fields (no special meaning here)
                ('since', None), ('author', None), ('note', None), ('see', None), ('version', None), ('date', None), ('copyright', None), ('organization', None),
                ('status', None), ('contact', None)]
        chosen = [p for p in pool if r.random() < (.3 if p[0] not in UNKNOWN_TAGS or p[0] == 'custom' else .08)]
        if not chosen:
            return out
        if r.random() < .5:
            # the manuals fix no order among fields: a type field may come before the description it belongs to
            r.shuffle(chosen)
        if fmt == 'restructuredtext' and r.random() < .25 and not any(t == 'param' for t, _ in chosen):
            # consolidated form: one field holding a bullet list, one item per parameter: "- `name`: description", an item may go on
            # with further paragraphs indented under it
            out.append(':Parameters:')
            for key in [k for k in ('a', 'b') if r.random() < .8] or ['a']:
                toks: List[str] = []
                first = self.para_lines(toks, 1, 3)
                out.append(f'    - `{key}`: ' + first[0])
                out.extend('      ' + ln for ln in first[1:])
                if r.random() < .5:
                    out.append('')
                    out.extend('      ' + ln for ln in self.para_lines(toks, 1, 3))
                if r.random() < .3:
                    out.append('')
                    out.extend('      ' + ln for ln in ('- ' + self.inline(toks), '- ' + self.inline(toks)))
                self.exp.fields.append(('Parameters', key, toks))
            out.append('')
        for tag, key in chosen:
            toks: List[str] = []
            if tag in ('type', 'rtype', 'ytype'):
                t = self.tok()
                toks.append(t)
                paras = [[f'C{{{t}}}' if fmt == 'epytext' else f'``{t}``']]
            else:
                paras = self.field_body(toks)
            head = (f'@{tag} {key}: ' if key else f'@{tag}: ') if fmt == 'epytext' else (f':{tag} {key}: ' if key else f':{tag}: ')
            # field: the tag, its optional argument, a colon, then the body; continuation lines and further paragraphs
            # are indented relative to the tag
            self.emit_body(head, 4, paras, out)
            label = {'param': 'Parameters', 'keyword': 'Parameters', 'type': 'Parameters', 'return': 'Returns', 'rtype': 'Returns', 'raise': 'Raises', 'warns': 'Warns', 'yield': 'Yields', 'ytype': 'Yields',
                     'note': 'Note', 'see': 'See Also', 'author': 'Author', 'since': 'Present Since', **{t: f'Unknown Field: {t}' for t in UNKNOWN_TAGS}}[tag]
            k = key
            if tag in ('param', 'type') and key == 'args':
                k = '*args'
            if tag in ('param', 'type') and key == 'kw':
                k = '**kw'
            if tag in ('rtype', 'ytype'):
                k = None
            self.exp.fields.append((label, k, toks))
            if tag in UNKNOWN_TAGS:
                self.exp.warned.append(tag)
        return out

    def fields_google(self) -> List[str]:
        r = self.r
        out: List[str] = []

        def entries(label: str, items: List[Tuple[Optional[str], Optional[str]]], keyed: bool) -> None:
            for name, typ in items:
                toks: List[str] = []
                paras = self.field_body(toks)
                if keyed:
                    head = f'    {name} ({typ}): ' if typ else f'    {name}: '
                    self.emit_body(head, 8, paras, out)
                    self.exp.fields.append((label, name, toks))
                else:
                    self.emit_body('    ' + (f'{typ}: ' if typ else ''), 4, paras, out)
                    self.exp.fields.append((label, None, toks))
        if r.random() < .6:
            out.append('Args:')
            entries('Parameters', [(n, t) for n, t in (('a', 'int'), ('b', None), ('*args', None), ('**kw', 'dict')) if r.random() < .6] or [('a', None)], True)
            out.append('')
        if r.random() < .4:
            out.append('Returns:')
            entries('Returns', [(None, r.choice([None, 'int']))], False)
            out.append('')
        if r.random() < .4:
            out.append('Raises:')
            entries('Raises', [(n, None) for n in ('ValueError', 'KeyError') if r.random() < .7] or [('ValueError', None)], True)
            out.append('')
        if r.random() < .3:
            out.append('Note:')
            n0 = len(self.exp.fields)
            entries('Note', [(None, None)], False)
            out.append('')
            # napoleon turns a Note section into a reST admonition: its text is part of the body, after everything else
            self.exp.body_tail = [t for f in self.exp.fields[n0:] for t in f[2]]  # type: ignore[attr-defined]
            del self.exp.fields[n0:]
        return out

    def fields_numpy(self) -> List[str]:
        r = self.r
        out: List[str] = []

        def section(title: str) -> None:
            out.append(title)
            out.append('-' * len(title))

        def entries(label: str, items: List[Tuple[Optional[str], Optional[str]]], keyed: bool) -> None:
            for name, typ in items:
                toks: List[str] = []
                paras = self.field_body(toks)
                if keyed:
                    out.append(f'{name} : {typ}' if typ else f'{name}')
                elif typ:
                    out.append(typ)
                if keyed or typ:
                    self.emit_body('    ', 4, paras, out)
                else:
                    self.emit_body('', 0, paras, out)
                self.exp.fields.append((label, name if keyed else None, toks))
        if r.random() < .6:
            section('Parameters')
            entries('Parameters', [(n, t) for n, t in (('a', 'int'), ('b', None), ('*args', None), ('**kw', 'dict')) if r.random() < .6] or [('a', None)], True)
            out.append('')
        if r.random() < .4:
            section('Returns')
            entries('Returns', [(None, 'int')], False)
            out.append('')
        if r.random() < .4:
            section('Raises')
            entries('Raises', [(n, None) for n in ('ValueError', 'KeyError') if r.random() < .7] or [('ValueError', None)], True)
            out.append('')
        if r.random() < .3:
            section('Notes')
            n0 = len(self.exp.fields)
            entries('Note', [(None, None)], False)
            out.append('')
            self.exp.body_tail = [t for f in self.exp.fields[n0:] for t in f[2]]  # type: ignore[attr-defined]
            del self.exp.fields[n0:]
        return out

    def document(self) -> Tuple[str, Expect]:
        body_sink: List[str] = []
        lines = self.sections(body_sink)
        self.exp.body = body_sink
        if self.fmt in ('epytext', 'restructuredtext'):
            f = self.fields_epy_rst()
            rest = [ln for ln in f[1:] if ln.strip()]
            if f and self.r.random() < .12 and not getattr(self.exp, 'verbatim', None) and any(not ln.startswith(' ') for ln in rest):
                # a docstring that consists of its fields only (standard docstring cleaning removes the indentation common to all lines but
                # the first: some later line must start at the margin, or the continuation lines would lose theirs)
                lines, self.exp.body = [], []
                return '\n'.join(f) + '\n', self.exp
        elif self.fmt == 'google':
            f = self.fields_google()
        else:
            f = self.fields_numpy()
        if f:
            lines += [''] + f
        self.exp.body = self.exp.body + list(getattr(self.exp, 'body_tail', []))
        return '\n'.join(lines) + '\n', self.exp


UNKNOWN_TAGS = ('custom', 'version', 'date', 'copyright', 'organization', 'status', 'contact')


def generate(r: Any, fmt: str) -> Tuple[str, Expect]:
    return Gen(r, fmt).document()


def plaintext(r: Any) -> str:
    parts = []
    n = r.randrange(100000, 900000)
    for i in range(r.randint(1, 8)):
        parts.append(r.choice([f'w{n + i:06d}', '  indented', '@param x: y', '- item', '>>> x', '<tag> & "q"', 'L{x}', '**b**', 'Title\n=====', 'a::', '', '\ttab', 'é 漢', 'trail   ']))
    return '\n'.join(parts)
