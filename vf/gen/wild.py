"""G-WILD: syntactically valid but arbitrary modules -- random ast trees over all statement, expression, pattern and
type-parameter node classes of Python 3.12, unparsed with ast.unparse.  Names are drawn from a pool that contains the
identifiers pydoctor treats specially (__all__, __docformat__, property, overload, attr.ib, implementer, TYPE_CHECKING,
Final, ...) so that its handlers are reached with operands of every shape."""
from __future__ import annotations

import ast
from typing import Any, List, Optional

from vf.gen import docfuzz

PLAIN = ['a', 'b', 'c', 'x', 'y', 'self', 'cls', 'T', 'K', 'Base', 'mod', 'pkg', 'é', 'Ω', '_p', '__m', '__d__', 'f', 'g', 'C', 'D', 'i', 'args', 'kw']
SPECIAL = ['__all__', '__docformat__', '__slots__', '__doc__', '__name__', '__init__', '__new__', '__call__', '__class_getitem__', '__path__', '__author__',
           'property', 'staticmethod', 'classmethod', 'overload', 'typing', 'Final', 'ClassVar', 'TypeAlias', 'TypeVar', 'Generic', 'Protocol', 'NamedTuple',
           'TYPE_CHECKING', 'attr', 'attrs', 'dataclass', 'dataclasses', 'field', 'implementer', 'Interface', 'Attribute', 'zope', 'interface', 'schema',
           'deprecated', 'deprecatedModuleAttribute', 'Version', 'incremental', 'object', 'type', 'Exception', 'list', 'dict', 'str', 'int', 'Optional', 'Union',
           'Literal', 'Callable', 'setter', 'getter', 'deleter', 'ib', 's', 'define', 'frozen', 'mutable', 'auto_attribs', 'kw_only', 'init', 'default', 'factory',
           'classImplements', 'implementer_only', 'moduleProvides', 'provider', 'extend', 'append', 'remove', 'abc', 'ABC', 'abstractmethod', 'functools', 'wraps',
           'cached_property', 'singledispatch', 'register', 're', 'compile', 'sys', 'os', 'path', 'version_info', 'platform', 'twisted', 'python', 'deprecate', 'versions']
MODNAMES = ['os', 'sys', 'typing', 'attr', 'attrs', 'dataclasses', 'zope.interface', 'zope.interface.interface', 'twisted.python.deprecate', 'incremental', 'm0', 'm1', 'm2',
            'pkg', 'pkg.sub', 'pkg.sub.deep', 'nosuch', 'nosuch.deeper', '__future__', 'abc', 'functools', 're', 'typing_extensions', 'é_mod']
STRINGS = ['_types', '_napoleon', '_pyval_repr', 'doctest', '__init__', 'epytext.markup', 'index', '', 'x', 'epytext', 'restructuredtext', 'google', 'numpy', 'plaintext', 'epytext en', 'nosuchformat', '  ', 'a.b', '.', '..', 'a b', '*', '__all__', 'f', 'C',
           '\x00', '\ud800', '\udfff\ud800', 'é', '‮', '\xa0nbsp', '<b>&amp;</b>', ']]>', '\\', "'", '"', '\'"', '\n', '\r', '\t', '%s', '{0}', '{', '}', 'a' * 300,
           '1.0.0', 'Twisted', 'L{x}', '`x`', ':param a: b', '@param a: b', '\x1b[0m', '\x7f', '\x85', ' ']


class Ctx:
    def __init__(self, r: Any, budget: int) -> None:
        self.r = r
        self.budget = budget
        self.in_func = False
        self.in_async = False
        self.in_loop = False
        self.in_class = False
        self.locals: List[str] = []

    def take(self, n: int = 1) -> bool:
        self.budget -= n
        return self.budget > 0


def name(c: Ctx) -> str:
    r = c.r
    return r.choice(SPECIAL) if r.random() < .45 else r.choice(PLAIN)


def const(c: Ctx) -> ast.expr:
    r = c.r
    k = r.randrange(12)
    v: Any
    if k == 0:
        v = r.choice([0, 1, -1, 2 ** 70, 255, 10 ** 30])
    elif k == 1:
        v = r.choice([0.0, 1.5, 1e308 * 10, -0.0, 1e-320, float('nan')])
    elif k == 2:
        v = r.choice([1j, 0j, complex(1e400, 1)]) if False else r.choice([1j, 0j, 2.5j])
    elif k == 3:
        v = r.choice([None, True, False, ...])
    elif k == 4:
        v = r.choice([b'', b'x', b'\x00\xff', b'it\'s "q"', b'\n\\'])
    elif k == 5:
        v = docfuzz.fuzz(r)[:400]
    else:
        v = r.choice(STRINGS)
    if isinstance(v, float) and v != v:
        return ast.Call(ast.Name('float', ast.Load()), [ast.Constant('nan')], [])
    if isinstance(v, (int, float)) and not isinstance(v, bool) and (v < 0 or v == float('inf') or str(v).startswith('-')):
        return ast.UnaryOp(ast.USub(), ast.Constant(abs(v)))
    return ast.Constant(v)


BINOPS = [ast.Add, ast.Sub, ast.Mult, ast.MatMult, ast.Div, ast.Mod, ast.Pow, ast.LShift, ast.RShift, ast.BitOr, ast.BitXor, ast.BitAnd, ast.FloorDiv]
UNOPS = [ast.Invert, ast.Not, ast.UAdd, ast.USub]
CMPOPS = [ast.Eq, ast.NotEq, ast.Lt, ast.LtE, ast.Gt, ast.GtE, ast.Is, ast.IsNot, ast.In, ast.NotIn]


def dotted(c: Ctx) -> ast.expr:
    r = c.r
    e: ast.expr = ast.Name(name(c), ast.Load())
    for _ in range(r.choice([0, 0, 1, 1, 2, 3])):
        e = ast.Attribute(e, name(c), ast.Load())
    return e


def comprehension(c: Ctx, depth: int) -> List[ast.comprehension]:
    r = c.r
    gens = []
    for _ in range(r.choice([1, 1, 2])):
        gens.append(ast.comprehension(target=target(c, depth - 1, simple=True), iter=expr(c, depth - 1),
                                      ifs=[expr(c, depth - 1) for _ in range(r.choice([0, 0, 1, 2]))],
                                      is_async=int(c.in_async and r.random() < .3)))
    return gens


def arguments(c: Ctx, depth: int, annotate: bool = True) -> ast.arguments:
    r = c.r
    used: set = set()

    def arg() -> Optional[ast.arg]:
        for _ in range(5):
            n = name(c)
            if n not in used and n.isidentifier() and n not in ('__debug__',):
                used.add(n)
                return ast.arg(n, expr(c, depth - 1) if annotate and r.random() < .4 else None)
        return None
    po = [a for a in (arg() for _ in range(r.choice([0, 0, 0, 1, 2]))) if a]
    pk = [a for a in (arg() for _ in range(r.choice([0, 1, 1, 2, 3]))) if a]
    va = arg() if r.random() < .3 else None
    ko = [a for a in (arg() for _ in range(r.choice([0, 0, 1, 2]))) if a]
    kwa = arg() if r.random() < .3 else None
    ndef = r.randint(0, len(po) + len(pk))
    return ast.arguments(posonlyargs=po, args=pk, vararg=va, kwonlyargs=ko,
                         kw_defaults=[expr(c, depth - 1) if r.random() < .5 else None for _ in ko],
                         kwarg=kwa, defaults=[expr(c, depth - 1) for _ in range(ndef)])


def fstring(c: Ctx, depth: int) -> ast.expr:
    r = c.r
    vals: List[ast.expr] = []
    for _ in range(r.randint(0, 4)):
        if r.random() < .5:
            vals.append(ast.Constant(r.choice(['lit', '{', '}', ' ', "'", 'é', '\\', 'a{{b'])))
        else:
            spec = ast.JoinedStr([ast.Constant(r.choice(['>10', '.2f', 'x', '']))]) if r.random() < .3 else None
            inner = expr(c, min(depth - 1, 1))
            vals.append(ast.FormattedValue(inner, r.choice([-1, -1, 114, 115, 97]), spec))
    return ast.JoinedStr(vals)


def expr(c: Ctx, depth: int) -> ast.expr:
    r = c.r
    if depth <= 0 or not c.take():
        k = r.random()
        return const(c) if k < .5 else dotted(c)
    k = r.randrange(31)
    d = depth - 1
    if k == 0:
        return ast.BoolOp(r.choice([ast.And, ast.Or])(), [expr(c, d) for _ in range(r.randint(2, 4))])
    if k == 1:
        return ast.NamedExpr(ast.Name(name(c), ast.Store()), expr(c, d))
    if k in (2, 3):
        return ast.BinOp(expr(c, d), r.choice(BINOPS)(), expr(c, d))
    if k == 4:
        return ast.UnaryOp(r.choice(UNOPS)(), expr(c, d))
    if k == 5:
        return ast.Lambda(arguments(c, d, annotate=False), expr(c, d))
    if k == 6:
        return ast.IfExp(expr(c, d), expr(c, d), expr(c, d))
    if k == 7:
        n = r.randint(0, 3)
        return ast.Dict([expr(c, d) if r.random() < .8 else None for _ in range(n)], [expr(c, d) for _ in range(n)])
    if k == 8:
        return ast.Set([expr(c, d) for _ in range(r.randint(1, 3))])
    if k == 9:
        return ast.ListComp(expr(c, d), comprehension(c, d))
    if k == 10:
        return ast.SetComp(expr(c, d), comprehension(c, d))
    if k == 11:
        return ast.DictComp(expr(c, d), expr(c, d), comprehension(c, d))
    if k == 12:
        return ast.GeneratorExp(expr(c, d), comprehension(c, d))
    if k == 13 and c.in_async:
        return ast.Await(expr(c, d))
    if k == 14 and c.in_func:
        return ast.Yield(expr(c, d) if r.random() < .7 else None)
    if k == 15 and c.in_func and not c.in_async:
        return ast.YieldFrom(expr(c, d))
    if k == 16:
        n = r.randint(1, 3)
        return ast.Compare(expr(c, d), [r.choice(CMPOPS)() for _ in range(n)], [expr(c, d) for _ in range(n)])
    if k in (17, 18, 19):
        args: List[ast.expr] = [expr(c, d) for _ in range(r.choice([0, 1, 1, 2, 3]))]
        if r.random() < .15:
            args.append(ast.Starred(expr(c, d), ast.Load()))
        kws = [ast.keyword(name(c) if r.random() < .85 else None, expr(c, d)) for _ in range(r.choice([0, 0, 1, 2]))]
        return ast.Call(dotted(c) if r.random() < .8 else expr(c, d), args, kws)
    if k == 20:
        return fstring(c, d)
    if k == 21:
        return ast.Attribute(expr(c, d), name(c), ast.Load())
    if k in (22, 23):
        sl: ast.expr
        q = r.random()
        if q < .5:
            sl = expr(c, d)
        elif q < .7:
            sl = ast.Slice(*(expr(c, d) if r.random() < .5 else None for _ in range(3)))
        elif q < .9:
            sl = ast.Tuple([expr(c, d) if r.random() < .7 else ast.Slice(None, expr(c, d), None) for _ in range(r.randint(0, 3))], ast.Load())
        else:
            sl = ast.Tuple([ast.Starred(expr(c, d), ast.Load())], ast.Load())
        return ast.Subscript(dotted(c) if r.random() < .7 else expr(c, d), sl, ast.Load())
    if k == 24:
        elts = [expr(c, d) for _ in range(r.randint(0, 3))]
        if r.random() < .2:
            elts.append(ast.Starred(expr(c, d), ast.Load()))
        return ast.List(elts, ast.Load())
    if k == 25:
        elts = [expr(c, d) for _ in range(r.randint(0, 3))]
        if r.random() < .2:
            elts.insert(0, ast.Starred(expr(c, d), ast.Load()))
        return ast.Tuple(elts, ast.Load())
    if k == 26:
        return dotted(c)
    return const(c)


def target(c: Ctx, depth: int, simple: bool = False) -> ast.expr:
    r = c.r
    k = r.random()
    if k < .55 or depth <= 0:
        return ast.Name(name(c), ast.Store())
    if k < .7:
        base: ast.expr = ast.Name(r.choice(['self', 'cls', 'self', name(c)]), ast.Load())
        for _ in range(r.choice([0, 0, 1])):
            base = ast.Attribute(base, name(c), ast.Load())
        return ast.Attribute(base, name(c), ast.Store())
    if k < .8:
        return ast.Subscript(dotted(c), expr(c, depth - 1), ast.Store())
    elts = [target(c, depth - 1) for _ in range(r.randint(1, 3))]
    if r.random() < .25:
        elts.insert(r.randrange(len(elts) + 1), ast.Starred(ast.Name(name(c), ast.Store()), ast.Store()))
    return (ast.Tuple if r.random() < .6 else ast.List)(elts, ast.Store())


def pattern(c: Ctx, depth: int) -> ast.pattern:
    r = c.r
    k = r.randrange(9 if depth > 0 else 4)
    d = depth - 1
    if k == 0:
        return ast.MatchValue(r.choice([ast.Constant(1), ast.Constant('s'), ast.Attribute(ast.Name(name(c), ast.Load()), name(c), ast.Load()), ast.UnaryOp(ast.USub(), ast.Constant(2))]))
    if k == 1:
        return ast.MatchSingleton(r.choice([None, True, False]))
    if k == 2:
        return ast.MatchAs(None, r.choice([None, 'cap_' + r.choice('abc')]))
    if k == 3:
        return ast.MatchAs(ast.MatchValue(ast.Constant(3)), 'as_' + r.choice('abc'))
    if k == 4:
        pats: List[ast.pattern] = [pattern(c, d) for _ in range(r.randint(0, 3))]
        if r.random() < .3:
            pats.append(ast.MatchStar(r.choice([None, 'rest'])))
        return ast.MatchSequence(pats)
    if k == 5:
        n = r.randint(0, 2)
        return ast.MatchMapping([ast.Constant(f'k{i}') for i in range(n)], [pattern(c, d) for _ in range(n)], r.choice([None, 'others']))
    if k == 6:
        kn = r.randint(0, 2)
        return ast.MatchClass(dotted(c), [pattern(c, d) for _ in range(r.randint(0, 2))], [f'kw{i}' for i in range(kn)], [pattern(c, d) for _ in range(kn)])
    if k == 7:
        # alternatives must bind the same names: use non-binding ones
        return ast.MatchOr([ast.MatchValue(ast.Constant(i)) for i in range(r.randint(2, 3))])
    return ast.MatchAs(None, None)


def type_params(c: Ctx, depth: int) -> List[ast.type_param]:
    r = c.r
    if r.random() < .8:
        return []
    out: List[ast.type_param] = []
    names = r.sample(['T', 'U', 'V', 'P', 'Ts'], r.randint(1, 3))
    for n in names:
        q = r.random()
        if q < .6:
            out.append(ast.TypeVar(n, expr(c, 1) if r.random() < .3 else None))
        elif q < .8:
            out.append(ast.ParamSpec(n))
        else:
            out.append(ast.TypeVarTuple(n))
    return out


def docstring(c: Ctx) -> List[ast.stmt]:
    r = c.r
    if r.random() < .6:
        return [ast.Expr(ast.Constant(docfuzz.fuzz(r)[:1500] if r.random() < .7 else r.choice(STRINGS)))]
    return []


def decorators(c: Ctx, depth: int) -> List[ast.expr]:
    r = c.r
    out: List[ast.expr] = []
    for _ in range(r.choice([0, 0, 0, 1, 1, 2, 3])):
        q = r.random()
        if q < .5:
            out.append(dotted(c))
        elif q < .85:
            out.append(ast.Call(dotted(c), [expr(c, 1) for _ in range(r.randint(0, 2))], [ast.keyword(name(c), expr(c, 1)) for _ in range(r.randint(0, 2))]))
        else:
            out.append(expr(c, depth))
    return out


def body(c: Ctx, depth: int, doc: bool = False) -> List[ast.stmt]:
    r = c.r
    out: List[ast.stmt] = docstring(c) if doc else []
    for _ in range(r.randint(1, 4) if depth > 0 else 1):
        out.append(stmt(c, depth))
        if r.random() < .25 and isinstance(out[-1], (ast.Assign, ast.AnnAssign)):
            out.append(ast.Expr(ast.Constant(docfuzz.fuzz(r)[:300])))      # attribute docstring
    return out or [ast.Pass()]


def funcdef(c: Ctx, depth: int) -> ast.stmt:
    r = c.r
    is_async = r.random() < .2
    saved = (c.in_func, c.in_async, c.in_loop, c.in_class)
    decs = decorators(c, depth)
    args = arguments(c, depth)
    returns = expr(c, 1) if r.random() < .3 else None
    tps = type_params(c, depth)
    c.in_func, c.in_async, c.in_loop, c.in_class = True, is_async, False, False
    b = body(c, depth - 1, doc=True)
    c.in_func, c.in_async, c.in_loop, c.in_class = saved
    cls = ast.AsyncFunctionDef if is_async else ast.FunctionDef
    return cls(name=name(c), args=args, body=b, decorator_list=decs, returns=returns, type_params=tps)


def classdef(c: Ctx, depth: int) -> ast.stmt:
    r = c.r
    saved = (c.in_func, c.in_async, c.in_loop, c.in_class)
    bases: List[ast.expr] = [dotted(c) if r.random() < .7 else expr(c, 2) for _ in range(r.choice([0, 0, 1, 1, 2, 3]))]
    if r.random() < .1:
        bases.append(ast.Starred(expr(c, 1), ast.Load()))
    kws = [ast.keyword(r.choice(['metaclass', 'total', name(c)]), expr(c, 1))] if r.random() < .15 else []
    if r.random() < .05:
        kws.append(ast.keyword(None, expr(c, 1)))
    decs = decorators(c, depth)
    tps = type_params(c, depth)
    c.in_func, c.in_async, c.in_loop, c.in_class = False, False, False, True
    b = body(c, depth - 1, doc=True)
    c.in_func, c.in_async, c.in_loop, c.in_class = saved
    return ast.ClassDef(name=name(c), bases=bases, keywords=kws, body=b, decorator_list=decs, type_params=tps)


def special_assign(c: Ctx, depth: int) -> ast.stmt:
    """statements pydoctor's builder interprets, with operands of arbitrary shape"""
    r = c.r
    k = r.randrange(12)
    strs = ast.List([ast.Constant(r.choice(STRINGS + PLAIN)) if r.random() < .8 else expr(c, 1) for _ in range(r.randint(0, 4))], ast.Load())
    if r.random() < .12:
        # literals that ast.literal_eval cannot evaluate (unhashable keys / set members) or that are huge
        odd = r.choice([ast.Dict([ast.List([], ast.Load())], [ast.Constant(1)]), ast.Set([ast.Dict([], [])]), ast.Dict([ast.Dict([], [])], [ast.Constant(0)]),
                        ast.Set([ast.List([ast.Constant('x')], ast.Load())]), ast.Constant(int('f' * 5000, 16)), ast.Constant(2 ** 20000),
                        ast.List([ast.Constant(int('7' * 4000, 8))], ast.Load()), ast.BinOp(ast.List([ast.List([], ast.Load())], ast.Load()), ast.Mult(), ast.Constant(3))])
        tgt = r.choice(['__all__', '__docformat__', '__slots__', name(c), name(c).upper()])
        if r.random() < .3:
            return ast.Assign([ast.Attribute(ast.Name(name(c), ast.Load()), '__doc__', ast.Store())], odd)
        if r.random() < .2:
            return ast.Assign([ast.Name('__all__', ast.Store())], ast.List([ast.Constant('x'), odd], ast.Load()))
        return ast.Assign([ast.Name(tgt, ast.Store())], odd)
    if r.random() < .08:
        # old-school decoration applied to something already decorated, or to a name that is not a method
        n = name(c)
        return ast.Assign([ast.Name(n, ast.Store())], ast.Call(ast.Name(r.choice(['staticmethod', 'classmethod', 'property']), ast.Load()), [ast.Name(n, ast.Load())], []))
    if k == 0:
        return ast.Assign([ast.Name('__all__', ast.Store())], r.choice([strs, ast.Tuple(strs.elts, ast.Load()), expr(c, 2), ast.BinOp(strs, ast.Add(), dotted(c))]))
    if k == 1:
        return ast.AugAssign(ast.Name('__all__', ast.Store()), r.choice([ast.Add(), ast.Sub(), ast.BitOr()]), r.choice([strs, expr(c, 2), ast.Attribute(dotted(c), '__all__', ast.Load())]))
    if k == 2:
        return ast.Expr(ast.Call(ast.Attribute(ast.Name('__all__', ast.Load()), r.choice(['extend', 'append', 'remove', 'insert']), ast.Load()), [r.choice([strs, expr(c, 1), ast.Constant('x')])], []))
    if k == 3:
        return ast.Assign([ast.Name('__docformat__', ast.Store())], r.choice([ast.Constant(r.choice(STRINGS)), expr(c, 1)]))
    if k == 4:
        return ast.AnnAssign(ast.Name(name(c), ast.Store()), r.choice([ast.Name('Final', ast.Load()), ast.Subscript(ast.Name('Final', ast.Load()), expr(c, 1), ast.Load()),
                                                                       ast.Attribute(ast.Name('typing', ast.Load()), 'ClassVar', ast.Load()), ast.Name('TypeAlias', ast.Load()), ast.Constant('Final[int]'),
                                                                       ast.Constant('not (valid'), ast.Constant('')]), expr(c, 1) if r.random() < .7 else None, 1)
    if k == 5:
        return ast.Assign([ast.Name(name(c), ast.Store())], ast.Call(ast.Attribute(ast.Name('attr', ast.Load()), r.choice(['ib', 'attrib', 'field']), ast.Load()), [],
                                                                       [ast.keyword(r.choice(['default', 'type', 'factory', 'init', 'kw_only', 'converter']), expr(c, 1)) for _ in range(r.randint(0, 3))]))
    if k == 6:
        return ast.Assign([ast.Name(name(c), ast.Store())], ast.Call(r.choice([ast.Name('Attribute', ast.Load()), ast.Attribute(ast.Attribute(ast.Name('zope', ast.Load()), 'interface', ast.Load()), 'Attribute', ast.Load()),
                                                                               ast.Attribute(ast.Name('schema', ast.Load()), 'TextLine', ast.Load())]),
                                                                     [expr(c, 1) for _ in range(r.randint(0, 2))], [ast.keyword('description', expr(c, 1))] if r.random() < .4 else []))
    if k == 7:
        return ast.Assign([ast.Name('__slots__', ast.Store())], r.choice([strs, ast.Tuple(strs.elts, ast.Load()), ast.Constant('one'), expr(c, 1)]))
    if k == 8:
        return ast.Expr(ast.Call(r.choice([ast.Name('classImplements', ast.Load()), ast.Name('deprecatedModuleAttribute', ast.Load()), ast.Name('moduleProvides', ast.Load()),
                                           ast.Name('alsoProvides', ast.Load())]), [expr(c, 1) for _ in range(r.randint(0, 4))], []))
    if k == 9:
        # alias chains and self-references
        a, b = name(c), name(c)
        return r.choice([ast.Assign([ast.Name(a, ast.Store())], ast.Name(b, ast.Load())), ast.Assign([ast.Name(a, ast.Store())], ast.Name(a, ast.Load())),
                         ast.Assign([ast.Name(a, ast.Store()), ast.Name(b, ast.Store())], dotted(c))])
    if k == 10:
        return ast.Assign([ast.Name(name(c), ast.Store())], ast.Call(r.choice([ast.Name('TypeVar', ast.Load()), ast.Name('NamedTuple', ast.Load()), ast.Name('property', ast.Load()),
                                                                               ast.Attribute(ast.Name('re', ast.Load()), 'compile', ast.Load())]),
                                                                     [expr(c, 1) for _ in range(r.randint(0, 3))], []))
    return ast.Assign([ast.Attribute(ast.Name('self', ast.Load()), name(c), ast.Store())], expr(c, 1))


def stmt(c: Ctx, depth: int) -> ast.stmt:
    r = c.r
    if depth <= 0 or not c.take(3):
        return r.choice([ast.Pass(), ast.Expr(expr(c, 1)), ast.Assign([target(c, 1)], expr(c, 1), lineno=0)])
    k = r.randrange(40)
    d = depth - 1
    if k in (0, 1, 2):
        return funcdef(c, depth)
    if k in (3, 4, 5):
        return classdef(c, depth)
    if k == 6 and c.in_func:
        return ast.Return(expr(c, 2) if r.random() < .7 else None)
    if k == 7:
        return ast.Delete([ast.Name(name(c), ast.Del()) if r.random() < .7 else ast.Attribute(dotted(c), name(c), ast.Del()) for _ in range(r.randint(1, 2))])
    if k in (8, 9, 10):
        return ast.Assign([target(c, 2) for _ in range(r.choice([1, 1, 1, 2]))], expr(c, 3), lineno=0)
    if k == 11:
        return ast.TypeAlias(ast.Name(name(c), ast.Store()), type_params(c, depth), expr(c, 2))
    if k == 12:
        t = target(c, 0) if r.random() < .7 else ast.Attribute(dotted(c), name(c), ast.Store())
        return ast.AugAssign(t, r.choice(BINOPS)(), expr(c, 2))
    if k in (13, 14):
        t = r.choice([ast.Name(name(c), ast.Store()), ast.Attribute(ast.Name('self', ast.Load()), name(c), ast.Store()), ast.Subscript(dotted(c), expr(c, 1), ast.Store())])
        return ast.AnnAssign(t, expr(c, 2), expr(c, 2) if r.random() < .6 else None, int(isinstance(t, ast.Name)))
    if k == 15:
        saved = c.in_loop
        c.in_loop = True
        is_async = c.in_async and r.random() < .4
        node = (ast.AsyncFor if is_async else ast.For)(target(c, 2), expr(c, 2), body(c, d), body(c, d) if r.random() < .3 else [], lineno=0)
        c.in_loop = saved
        return node
    if k == 16:
        saved = c.in_loop
        c.in_loop = True
        node2 = ast.While(expr(c, 2), body(c, d), body(c, d) if r.random() < .3 else [])
        c.in_loop = saved
        return node2
    if k in (17, 18, 19):
        test = r.choice([ast.Name('TYPE_CHECKING', ast.Load()), ast.Attribute(ast.Name('typing', ast.Load()), 'TYPE_CHECKING', ast.Load()),
                         ast.Compare(ast.Name('__name__', ast.Load()), [ast.Eq()], [ast.Constant('__main__')]),
                         ast.Compare(ast.Attribute(ast.Name('sys', ast.Load()), 'version_info', ast.Load()), [ast.GtE()], [ast.Tuple([ast.Constant(3), ast.Constant(8)], ast.Load())]),
                         ast.Constant(True), ast.Constant(0), expr(c, 2), expr(c, 2)])
        return ast.If(test, body(c, d), body(c, d) if r.random() < .5 else [])
    if k == 20:
        items = [ast.withitem(expr(c, 2), target(c, 1) if r.random() < .5 else None) for _ in range(r.randint(1, 2))]
        return (ast.AsyncWith if c.in_async and r.random() < .4 else ast.With)(items, body(c, d), lineno=0)
    if k == 21:
        cases = [ast.match_case(pattern(c, 2), expr(c, 1) if r.random() < .3 else None, body(c, d)) for _ in range(r.randint(1, 3))]
        # irrefutable patterns are only allowed last
        for mc in cases[:-1]:
            if isinstance(mc.pattern, ast.MatchAs) and mc.pattern.pattern is None and mc.guard is None:
                mc.pattern = ast.MatchValue(ast.Constant(0))
        return ast.Match(expr(c, 2), cases)
    if k == 22:
        return ast.Raise(expr(c, 2) if r.random() < .8 else None, None) if r.random() < .7 else ast.Raise(expr(c, 1), expr(c, 1))
    if k in (23, 24):
        star = r.random() < .25
        handlers = [ast.ExceptHandler(dotted(c) if (star or r.random() < .8) else None, r.choice([None, name(c)]), body(c, d)) for _ in range(r.randint(0 if not star else 1, 2))]
        # a bare except must be last
        for h in handlers[:-1]:
            if h.type is None:
                h.type = ast.Name('Exception', ast.Load())
        for h in handlers:
            if h.type is None:
                h.name = None
        final = body(c, d) if (r.random() < .4 or not handlers) else []
        orelse = body(c, d) if (handlers and r.random() < .3) else []
        saved_loop = c.in_loop
        if star:
            c.in_loop = False        # break/continue/return are not allowed in except* bodies; keep it simple
        node3 = (ast.TryStar if star else ast.Try)(body(c, d), handlers, orelse, final)
        c.in_loop = saved_loop
        if star:
            for h in handlers:
                h.body = [s for s in h.body if not isinstance(s, (ast.Return, ast.Break, ast.Continue))] or [ast.Pass()]
        return node3
    if k == 25:
        return ast.Assert(expr(c, 2), expr(c, 1) if r.random() < .4 else None)
    if k in (26, 27):
        return ast.Import([ast.alias(r.choice(MODNAMES), r.choice([None, None, name(c)])) for _ in range(r.randint(1, 3))])
    if k in (28, 29, 30):
        if r.random() < .2 and not c.in_func and not c.in_class:
            return ast.ImportFrom(r.choice(MODNAMES), [ast.alias('*', None)], r.choice([0, 0, 1, 2]))
        lvl = r.choice([0, 0, 0, 1, 1, 2, 3, 7])
        return ast.ImportFrom(r.choice(MODNAMES + [None]) if lvl else r.choice(MODNAMES), [ast.alias(name(c), r.choice([None, None, name(c)])) for _ in range(r.randint(1, 3))], lvl)
    if k == 31 and c.in_func:
        return ast.Global([r.choice(PLAIN) + '_g' for _ in range(r.randint(1, 2))])
    if k == 38 and c.in_func:
        return ast.Nonlocal([r.choice(PLAIN) + '_n'])
    if k == 32 and c.in_loop:
        return r.choice([ast.Break(), ast.Continue()])
    if k in (33, 34, 35, 36):
        return special_assign(c, depth)
    if k == 37:
        return ast.Expr(ast.Constant(docfuzz.fuzz(r)[:300]))
    return ast.Expr(expr(c, 3))


def module_tree(r: Any, budget: int = 260, depth: int = 4) -> ast.Module:
    c = Ctx(r, budget)
    b: List[ast.stmt] = docstring(c)
    if r.random() < .3:
        b.append(ast.ImportFrom('__future__', [ast.alias('annotations', None)], 0))
    for _ in range(r.randint(2, 9)):
        b.append(stmt(c, depth))
        if r.random() < .2 and isinstance(b[-1], (ast.Assign, ast.AnnAssign)):
            b.append(ast.Expr(ast.Constant(docfuzz.fuzz(r)[:300])))
    return ast.fix_missing_locations(ast.Module(b, []))


def module_source(r: Any, budget: int = 260, depth: int = 4) -> str:
    """source text of an arbitrary module that ast.parse accepts (retries on the few shapes the unparser cannot spell)"""
    for _ in range(30):
        try:
            src = ast.unparse(module_tree(r, budget, depth))
            src.encode('utf-8', 'surrogatepass')
            ast.parse(src)
            return src
        except (SyntaxError, ValueError, RecursionError, UnicodeError, TypeError, AttributeError, KeyError):
            continue
    return 'pass\n'
