"""G-SIG: function signature workload for C14."""
from __future__ import annotations

import itertools
from typing import Any, Dict, Iterator, List, Optional, Tuple

from vf.gen import expr as G

KINDS = ['po', 'pk', 'va', 'ko', 'kw']   # positional-only, positional-or-keyword, *args, keyword-only, **kwargs
ANN = [None, 'int', "'str'"]
RET = [None, 'None', 'int', "'Ret'"]

ANNOTATIONS = ['int', 'str', 'a.B', 'List[int]', 'Dict[str, "Foo"]', "Optional['a.B']", "Literal['x', 1]", 'int | None',
               'Callable[[int], str]', "'List[int]'", 'Tuple[()]', 'Tuple[int, ...]', "typing.Literal['lit']", "'Dict[str, Tuple[int, ...]]'",
               'None', "'None'", 'Callable[..., "T"]', "Union['A', 'b.C', None]", 'type[int]', "list['X | None']", 'Annotated[int, "meta"]' if False else 'Final',
               'Optional[None]', '"a.b.C"',
               # string annotations whose outermost node is an operator over an operand that needs its parentheses
               '"(A | B) & C"', '"-(A + B)"', '"(A or B) and C"', '"(A | B)[int]"', '"(A, B)[0]"', '"(yield_ := A) | B"',
               'Dict[str, Tuple[Callable[[int, str, bytes], Optional[float]], Mapping[str, Sequence[Union[int, str, None]]]]]',
               "'Mapping[str, Callable[[SomeVeryLongClassName, AnotherVeryLongClassName], Awaitable[Optional[YetAnotherName]]]]'",
               # quoted forward references below operators and in other spellings of Literal
               '"Node" | None', 'None | "Node"', 'Optional["Node"] | None', 'dict[str, "Node"] | None', '"A" | "b.C"', 'list["Node" | None]', '("Node")',
               "t.Literal['on', 'off']", "typing_extensions.Literal['x y', 'z']", "te.Literal['a'] | None", "Annotated['Node', 'meta']", '[("Node")]', "Callable[['A', 'B'], 'C']",
               "Literal['a'] | 'Node'", "'Literal[\"q\"]'"]
DEFAULTS = ['1', 'None', "'s'", 'a.b', '-1', '()', '[]', '{}', 'x + 1', 'f(1, k=2)', "b'x'", '...', '1.5', '(1, 2)', 'not x', 'lambda: 0', 'A | B',
            "'it\\'s'", '"<tag> & \\"q\\""', 'x if y else z', '[i for i in y]', 'a[1:2]', '-(-1)', 'a ** -b', '(a, b)[0]', '{1: 2}', 'a < b', 'a and b or c',
            # values longer than any line-length setting of the value display (a signature is not wrapped or cut)
            "'" + 'long text ' * 12 + "'", '[' + ', '.join(str(i) for i in range(1000, 1030)) + ']', 'frozenset({' + ', '.join(f"'k{i}'" for i in range(20)) + '})',
            'some_module.some_factory(first_argument=1, second_argument=(2, 3), third_argument={"key": "value"}, fourth=None)']


def layouts(n: int) -> Iterator[List[str]]:
    """all legal kind sequences of length n"""
    for seq in itertools.product(KINDS, repeat=n):
        if list(seq) != sorted(seq, key=KINDS.index):
            continue
        if seq.count('va') > 1 or seq.count('kw') > 1:
            continue
        yield list(seq)


def default_masks(seq: List[str]) -> Iterator[List[bool]]:
    pos = [i for i, k in enumerate(seq) if k in ('po', 'pk')]
    ko = [i for i, k in enumerate(seq) if k == 'ko']
    # positional defaults are a suffix of the positional parameters
    for npos in range(len(pos) + 1):
        for komask in itertools.product([False, True], repeat=len(ko)):
            m = [False] * len(seq)
            for i in pos[len(pos) - npos:]:
                m[i] = True
            for i, b in zip(ko, komask):
                m[i] = b
            yield m


def render(seq: List[str], defaults: List[Optional[str]], anns: List[Optional[str]], ret: Optional[str],
           names: Optional[List[str]] = None) -> str:
    names = names or [f'p{i}' for i in range(len(seq))]
    parts: List[str] = []
    n = len(seq)
    for i, k in enumerate(seq):
        s = names[i]
        if k == 'va':
            s = '*' + s
        elif k == 'kw':
            s = '**' + s
        if k == 'ko' and 'va' not in seq and (i == 0 or seq[i - 1] != 'ko'):
            parts.append('*')
        if anns[i] is not None:
            s += ': ' + anns[i]
        if defaults[i] is not None:
            s += (' = ' if anns[i] is not None else '=') + defaults[i]
        parts.append(s)
        if k == 'po' and (i + 1 == n or seq[i + 1] != 'po'):
            parts.append('/')
    sig = '(' + ', '.join(parts) + ')'
    if ret is not None:
        sig += ' -> ' + ret
    return sig


def exhaustive(maxn: int) -> Iterator[Tuple[str, str]]:
    for n in range(0, maxn + 1):
        for seq in layouts(n):
            for mask in default_masks(seq):
                for anns in itertools.product(ANN, repeat=n):
                    defaults = [('1' if i % 2 else 'None') if m else None for i, m in enumerate(mask)]
                    for ret in RET:
                        yield f'{"-".join(seq)}', render(seq, defaults, list(anns), ret)


def random_sig(r: Any, complex_exprs: bool = True) -> str:
    n = r.randint(0, 12)
    seq = sorted((r.choice(KINDS) for _ in range(n)), key=KINDS.index)
    while seq.count('va') > 1:
        seq.remove('va')
    while seq.count('kw') > 1:
        seq.remove('kw')
    n = len(seq)
    pos = [i for i, k in enumerate(seq) if k in ('po', 'pk')]
    npos = r.randint(0, len(pos))
    defaults: List[Optional[str]] = [None] * n

    def dflt() -> str:
        if complex_exprs and r.random() < .35:
            return G.random_expr(r, r.randint(1, 3))
        return r.choice(DEFAULTS)
    for i in pos[len(pos) - npos:]:
        defaults[i] = dflt()
    for i, k in enumerate(seq):
        if k == 'ko' and r.random() < .5:
            defaults[i] = dflt()
    anns = [r.choice(ANNOTATIONS) if r.random() < .5 else None for _ in range(n)]
    ret = r.choice([None, None, 'None', "'None'"] + ANNOTATIONS)
    names = [r.choice(['self', 'cls', 'a', 'b', 'x', 'arg', 'value', 'kw', '_p', 'lambda_', 'é']) + str(i) for i in range(n)]
    return render(seq, defaults, anns, ret, names)
