"""CORPUS: real code available offline (read-only): the stdlib of the repo's interpreter, site-packages, pydoctor itself."""
from __future__ import annotations

import os
import sysconfig
from functools import lru_cache
from pathlib import Path
from typing import List, Tuple

STDLIB = Path(sysconfig.get_paths()['stdlib'])
SITE = Path('/venv/lib/python3.12/site-packages')

SKIP = {'test', 'tests', 'idlelib', 'lib2to3', 'tkinter', 'turtledemo', 'site-packages', '__pycache__', 'ensurepip',
        'pydoc_data', 'config-3.12-x86_64-linux-gnu', 'lib-dynload', '__phello__', 'turtle.py', 'antigravity.py', 'this.py'}


def _count(p: Path) -> Tuple[int, int]:
    n = size = 0
    if p.is_file():
        return 1, p.stat().st_size
    for root, dirs, files in os.walk(p):
        dirs[:] = [d for d in dirs if d not in ('__pycache__',)]
        for f in files:
            if f.endswith('.py'):
                n += 1
                size += os.path.getsize(os.path.join(root, f))
    return n, size


@lru_cache(maxsize=None)
def roots() -> List[Tuple[str, int, int]]:
    """[(path, n_files, bytes)] of documentable roots: packages (dirs with __init__.py) and top-level modules."""
    out = []
    from vf import core
    bases = [STDLIB, SITE, Path(core.repo_dir())]
    for base in bases:
        if not base.is_dir():
            continue
        for p in sorted(base.iterdir()):
            if p.name in SKIP or p.name.startswith(('_', '.')):
                continue
            if p.is_dir():
                if not (p / '__init__.py').is_file():
                    continue
                if base != STDLIB and base != SITE and p.name != 'pydoctor':
                    continue
            elif p.suffix != '.py' or base != STDLIB:
                continue
            n, size = _count(p)
            out.append((str(p), n, size))
    return out


def pick(r, k: int, max_bytes: int = 400_000, min_files: int = 1) -> List[str]:
    cand = [p for p, n, size in roots() if size <= max_bytes and n >= min_files]
    r.shuffle(cand)
    return cand[:k]


@lru_cache(maxsize=None)
def all_py_files(limit_bytes: int = 300_000) -> List[str]:
    out = []
    for p, n, size in roots():
        pp = Path(p)
        if pp.is_file():
            out.append(p)
        else:
            for root, dirs, files in os.walk(pp):
                dirs[:] = [d for d in dirs if d != '__pycache__']
                for f in sorted(files):
                    if f.endswith('.py') and os.path.getsize(os.path.join(root, f)) <= limit_bytes:
                        out.append(os.path.join(root, f))
    return out
