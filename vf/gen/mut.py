"""MUT: byte/line/token mutations of Python source files -- yields unparsable (and oddly encoded) files next to good ones."""
from __future__ import annotations

from typing import Any, List

TOKENS = [b'(', b')', b'[', b']', b'{', b'}', b':', b',', b'=', b'"""', b"'''", b'"', b"'", b'\\', b'\\\n', b'def ', b'class ', b'import ', b'from ', b'lambda', b'*', b'**',
          b'@', b'->', b':=', b'async ', b'await ', b'yield ', b'return ', b'match x:\n', b'case _:', b'\t', b'    ', b'\x0c', b'#', b'# type: ', b'# type: ignore[',
          b'\xff', b'\xc3', b'\xed\xa0\x80', b'\x00', b'\r', b'\r\n', b'\x1a', b'\xef\xbb\xbf', b'0x', b'1e', b'0_', b'f"{', b'f"{x!', b'b"\xc3\xa9"', b'\\N{', b'\\x', b'\\u12',
          b'__all__ = ', b'__docformat__ = ', b'if TYPE_CHECKING:', b'else:', b'elif', b'try:', b'except*', b'finally:', b'with ', b' as ', b'global ', b'nonlocal x\n', b'del ',
          b'print >>f, x', b'exec "x"', b'`x`', b'<>', b'$', b'?', b'!', b'\xe2\x80\xae', b'\xc2\xa0']
COOKIES = [b'# -*- coding: latin-1 -*-\n', b'# -*- coding: utf-8 -*-\n', b'# coding: nosuchcodec\n', b'# vim: set fileencoding=utf-16 :\n', b'# -*- coding: ascii -*-\n',
           b'#!/usr/bin/env python\n# coding=cp1252\n', b'# coding: utf-8-sig\n', b'# coding: rot13\n', b'# coding: utf-7\n']


def mutate(r: Any, data: bytes, n: int = 0) -> bytes:
    """apply 1..3 random mutations"""
    for _ in range(n or r.randint(1, 3)):
        lines = data.split(b'\n')
        k = r.randrange(17)
        if k == 0 and len(lines) > 1:
            del lines[r.randrange(len(lines))]
            data = b'\n'.join(lines)
        elif k == 1:
            i = r.randrange(len(lines))
            lines.insert(i, lines[i])
            data = b'\n'.join(lines)
        elif k == 2 and len(lines) > 1:
            i, j = r.randrange(len(lines)), r.randrange(len(lines))
            lines[i], lines[j] = lines[j], lines[i]
            data = b'\n'.join(lines)
        elif k in (3, 4, 5):
            pos = r.randrange(len(data) + 1)
            data = data[:pos] + r.choice(TOKENS) + data[pos:]
        elif k == 6 and data:
            data = data[:r.randrange(len(data))]
        elif k == 7:
            i = r.randrange(len(lines))
            lines[i] = b' ' * r.randint(1, 9) + lines[i].lstrip() if r.random() < .5 else lines[i].lstrip()
            data = b'\n'.join(lines)
        elif k == 8:
            data = data.replace(b'\n', r.choice([b'\r\n', b'\r', b'\n\x0c', b'\n\n']))
        elif k == 9:
            data = r.choice([b'\xef\xbb\xbf', b'\xff\xfe', b'\xfe\xff', b'\xef\xbb\xbf\xef\xbb\xbf']) + data
        elif k == 10:
            data = r.choice(COOKIES) + data
        elif k == 11 and data:
            pos = r.randrange(len(data))
            data = data[:pos] + bytes([r.randrange(256)]) + data[pos + 1:]
        elif k == 12 and data:
            # delete a random slice
            i = r.randrange(len(data))
            data = data[:i] + data[i + r.randint(1, 40):]
        elif k == 13 and len(lines) > 2:
            # duplicate a block somewhere else (definitions seen twice, bodies without headers)
            i = r.randrange(len(lines))
            blk = lines[i:i + r.randint(1, 8)]
            j = r.randrange(len(lines))
            lines[j:j] = blk
            data = b'\n'.join(lines)
        elif k == 14:
            # replace a token by another
            a, b = r.choice(TOKENS[:30]), r.choice(TOKENS)
            if a in data:
                idx = [i for i in range(len(data)) if data.startswith(a, i)]
                p = r.choice(idx)
                data = data[:p] + b + data[p + len(a):]
        elif k == 15:
            i = r.randrange(len(lines))
            lines[i] = lines[i] + b' \\'
            data = b'\n'.join(lines)
        else:
            i = r.randrange(len(lines))
            lines[i] = lines[i].replace(b'    ', b'\t', 1) if b'    ' in lines[i] else b'\t' + lines[i]
            data = b'\n'.join(lines)
    return data


def parses(data: bytes) -> bool:
    import ast
    try:
        ast.parse(data + b'\n', type_comments=True)
        return True
    except (SyntaxError, ValueError):
        return False
    except (RecursionError, MemoryError):
        return False


def breakers(r: Any) -> List[bytes]:
    """contents of files that surely do not parse"""
    return [b'def f(:\n    pass\n', b'class C:\npass\n', b'x = (1,\n', b'"""unterminated\n', b'x = 1\n  y = 2\n', b'\x00', b'x = "\xff"\n# no cookie: invalid utf-8 \xff\n',
            b'# coding: nosuchcodec\nx = 1\n', b'print "py2"\n', b'def f():\n\treturn 1\n        return 2\n', b'x = $\n', b'\xff\xfe' + 'x = 1\n'.encode('utf-16-le'),
            b'(' * 300 + b')' * 300 + b'\n', b'import\n', b'lambda: (yield)\nreturn\nx ===== 1\n', b"f'{'\n", b'a = 1 if\n', b'async def\n', b'match x:\ncase 1: pass\n', b'x = 0777\n']
