"""
G-PROJ: project generator from an abstract spec.

Every definition gets a globally unique short name carrying its id (C17, f42, v7): a name seen anywhere later
(in pydoctor's model, in CPython's namespaces, in the output directory) identifies exactly one spec item.
The generator records ground truth: where each object is defined, which local names are import-bound and to
what, which objects are re-exported where. Feature flags select the sub-language a property agrees on.

Importability in CPython is a *checked* property of each generated project (the dumper imports it); projects
that fail to import are counted as generator discards by the checks that need CPython as oracle.
"""
from __future__ import annotations

import dataclasses
from dataclasses import dataclass, field
from pathlib import Path
from typing import Any, Dict, List, Optional, Tuple


@dataclass
class Features:
    reexports: bool = False          # __all__ re-exports that move objects
    star: bool = False               # from m import *
    cycles: bool = False             # imports back to later modules under TYPE_CHECKING / inside functions
    duplicates: bool = False         # a name defined twice in one namespace
    blocks: bool = True              # definitions inside taken if/try/with/for bodies
    nested: bool = True              # nested classes
    main_blocks: bool = True         # if __name__ == '__main__': blocks and function-local definitions
    inheritance: bool = True
    aliases: bool = True             # import ... as, module aliases
    class_imports: bool = True       # imports inside class bodies
    docstyle: str = 'plain'          # 'plain' | 'epytext' (with cross references)
    privacy: bool = False            # generate --privacy rules
    multi_root: bool = False
    fields: bool = False             # @ivar/@cvar/@type documented-only attributes
    zope: bool = False
    canary: bool = False             # HTML metacharacter canaries in names-adjacent text (C10)
    assign_alias: bool = False       # x = SomeName (pydoctor alias, excluded from the CPython-comparable subset)
    odd_names: bool = False          # non-ASCII identifiers, module/class name clashes
    consumers: bool = False          # C07: consumers importing re-exported objects from old and new locations
    max_modules: int = 6
    overrides: bool = False          # member names shared along class hierarchies (class var / instance var / method overrides)
    pkg_imports: bool = False        # C04: a package imports (also star-imports) names of its own submodules without listing them in __all__
    name_salt: Optional[int] = None  # permutes the alphabetical order of module names without changing the structure
    rebind: bool = False             # C03: later definitions that differ from the earlier one (docstring dropped, other decorator, other literal type, other kind)
    local_imports: bool = False      # C04: function-local imports under names the enclosing scope binds to something else; class-level imports of names used earlier in the class body
    late_rebind: bool = False        # C05: a base name is rebound (import-as / assignment) after the class statement that used it
    bottom_imports: bool = False     # C06: real module-level import cycles through imports at the bottom of a module

    @classmethod
    def namespace(cls) -> 'Features':       # C03
        return cls(reexports=False, star=True, duplicates=True, rebind=True)

    @classmethod
    def resolution(cls) -> 'Features':      # C04
        return cls(reexports=False, star=True, duplicates=False, main_blocks=False, local_imports=True, pkg_imports=True, multi_root=True)

    @classmethod
    def history(cls) -> 'Features':         # C02
        return cls(reexports=True, star=True, cycles=True, duplicates=True, fields=True, zope=True, odd_names=True,
                   assign_alias=True, docstyle='epytext', overrides=True)

    @classmethod
    def order(cls) -> 'Features':           # C06
        return cls(reexports=True, star=True, cycles=False, duplicates=False, multi_root=True, assign_alias=True, overrides=True)

    @classmethod
    def order_cycles(cls) -> 'Features':
        return cls(reexports=True, star=True, cycles=True, duplicates=False, multi_root=True, assign_alias=True, overrides=True)

    @classmethod
    def reexport(cls) -> 'Features':        # C07
        return cls(reexports=True, star=True, consumers=True, docstyle='epytext', main_blocks=False)

    @classmethod
    def rendering(cls) -> 'Features':       # C10 C11 C12 C17 C18 C01
        return cls(reexports=True, star=True, cycles=True, duplicates=True, privacy=True, multi_root=True, fields=True,
                   docstyle='epytext', odd_names=True, assign_alias=True, overrides=True)


# ---- spec -------------------------------------------------------------------------------------------

@dataclass
class Item:
    kind: str                                  # class func var import all block main raw alias
    name: str = ''
    uid: int = -1
    doc: Optional[str] = None
    bases: List[str] = field(default_factory=list)        # source text of base expressions
    base_uids: List[Optional[int]] = field(default_factory=list)
    members: List['Item'] = field(default_factory=list)
    deco: Optional[str] = None                 # classmethod staticmethod property property+setter old-classmethod old-staticmethod noop
    is_async: bool = False
    sig: str = '()'
    value: str = '0'
    ann: Optional[str] = None
    text: str = ''                             # import / raw source text
    binds: List[Tuple[str, str, Any]] = field(default_factory=list)   # (local name, 'obj'|'mod', uid or module full name)
    star_from: Optional[str] = None
    names: List[str] = field(default_factory=list)        # __all__
    block: str = ''                            # if try with for while-else
    returns: Optional[str] = None


@dataclass
class Mod:
    mid: int
    name: str                                  # short name
    parent: Optional[int]                      # mid of the package, None for roots
    is_pkg: bool
    items: List[Item] = field(default_factory=list)
    doc: Optional[str] = None
    order: int = -1                            # position in the dependency order (non-init modules)

    def full(self, spec: 'Spec') -> str:
        return self.name if self.parent is None else spec.mods[self.parent].full(spec) + '.' + self.name


@dataclass
class Spec:
    mods: List[Mod] = field(default_factory=list)
    defs: Dict[int, Tuple[int, str, str]] = field(default_factory=dict)    # uid -> (mid, qualname, kind)
    moved: Dict[int, Tuple[int, str]] = field(default_factory=dict)        # uid -> (mid of re-exporter, exported name)
    privacy: List[str] = field(default_factory=list)
    features: Optional[Features] = None
    notes: Dict[str, Any] = field(default_factory=dict)

    def roots(self) -> List[Mod]:
        return [m for m in self.mods if m.parent is None]

    def children(self, mid: int) -> List[Mod]:
        return [m for m in self.mods if m.parent == mid]

    def modname(self, mid: int) -> str:
        return self.mods[mid].full(self)

    def def_fullname(self, uid: int) -> str:
        mid, qual, _ = self.defs[uid]
        return self.modname(mid) + '.' + qual

    def final_fullname(self, uid: int) -> str:
        """where the object must be documented after re-export moves (members follow their container)"""
        mid, qual, _ = self.defs[uid]
        parts = qual.split('.')
        # find the outermost container that moved
        top_uid = self.notes['qual2uid'].get((mid, parts[0]))
        if top_uid is not None and top_uid in self.moved:
            nm, newname = self.moved[top_uid]
            return '.'.join([self.modname(nm), newname] + parts[1:])
        return self.modname(mid) + '.' + qual


# ---- generation -------------------------------------------------------------------------------------

LITERALS = [('1', 'int'), ('2.5', 'float'), ("'s'", 'str'), ("b'b'", 'bytes'), ('True', 'bool'), ('None', None), ('[1, 2]', 'list[int]'),
            ('(1, 2)', 'tuple[int, ...]'), ("{'a': 1}", 'dict[str, int]'), ('{1, 2}', 'set[int]'), ('[]', 'list'), ('1j', 'complex'),
            ("['a', 'b']", 'list[str]'), ('-1', None), ('1 + 2', None), ("('a', 1)", 'tuple'), ('{}', 'dict'),
            # containers whose elements are not of one type: nothing more than the container type can be stated
            ('[1, None, 3]', 'list'), ("{'x': 'X', 'y': None}", 'dict'), ('(None, 2.5)', 'tuple'), ('{None, 1}', 'set'), ('[True, 1]', 'list'),
            ("[1, 2.0]", 'list'), ("{'a': 1, 2: 1}", 'dict'), ("(b'b', 's')", 'tuple'), ('[None, None]', 'list[None]'),
            # values that are operations, not literals: their type is the type of the result, if it is stated at all
            ('3 + 4j', None), ('1 + 2.5', None), ('7 / 2', None), ("[1] + ['a']", None), ("'%d' % 3", None), ('2 ** -1', None), ("(1,) + ('a',)", None)]

BLOCKS = ['if', 'try', 'with', 'for', 'try-finally', 'if-else', 'if-name-ne', 'if-not-main', 'while-break', 'if-name-ne-rev',
          'if-elif', 'with-as', 'if-name-other-ne']

DOC_LAYOUTS = ['single', 'multi', 'ragged', 'leading-blank', 'tabs', 'raw', 'concat', 'trailing-blank', 'single-trailing', 'single-tab', 'single-leading', 'none', 'empty', 'quote-below']


class _Gen:
    def __init__(self, r: Any, f: Features) -> None:
        self.r = r
        self.f = f
        self.spec = Spec(features=f)
        self.uid = 0
        self.spec.notes['qual2uid'] = {}
        self.exports: Dict[int, List[Tuple[str, int, str]]] = {}     # mid -> [(name, uid, kind)] top-level public definitions
        self.reexported: set = set()
        self.imported_classes: Dict[int, List[Tuple[str, int]]] = {}

    def new_uid(self) -> int:
        self.uid += 1
        return self.uid

    # -- docstrings
    def doc(self, what: str, refs: List[str]) -> Optional[str]:
        r = self.r
        if r.random() < .25:
            return None
        words = f'Doc of {what} w{r.randrange(10**5):05d}.'
        if self.f.docstyle == 'epytext' and refs and r.random() < .6:
            words += ' See L{' + r.choice(refs) + '}.'
        if self.f.canary and r.random() < .5:
            words += ' @@CAN%d@@' % r.randrange(1000, 9999)
        return words

    def render_doc(self, doc: Optional[str], indent: str, layout: Optional[str] = None) -> List[str]:
        if doc is None:
            return []
        r = self.r
        layout = layout or (r.choice(DOC_LAYOUTS[:11]) if self.f.docstyle == 'plain' else r.choice(['single', 'multi', 'quote-below']))
        d = doc.replace('\\', '\\\\').replace('"""', "'''")
        if layout == 'single':
            return [f'{indent}"""{d}"""']
        if layout == 'multi':
            return [f'{indent}"""{d}', f'{indent}', f'{indent}More text.', f'{indent}"""']
        if layout == 'ragged':
            return [f'{indent}"""{d}', f'{indent}    indented more', f'{indent}  and less', f'{indent}"""']
        if layout == 'leading-blank':
            return [f'{indent}"""', '', f'{indent}{d}', f'{indent}"""']
        if layout == 'tabs':
            return [f'{indent}"""{d}', f'{indent}\tafter a tab', f'{indent}"""']
        if layout == 'raw':
            return [f'{indent}r"""{d} \\d raw"""']
        if layout == 'concat':
            return [f'{indent}"{d} " "joined"']
        if layout == 'trailing-blank':
            return [f'{indent}"""{d}', '', '', f'{indent}"""']
        if layout == 'single-trailing':
            return [f'{indent}"""{d}  \t """']          # one line ending in blanks and a tab: standard cleaning keeps them
        if layout == 'single-tab':
            return [f'{indent}"""{d}\twith a tab"""']      # standard cleaning expands tabs
        if layout == 'single-leading':
            return [f'{indent}"""   {d}"""']
        if layout == 'quote-below':
            return [f'{indent}"""', f'{indent}{d}', f'{indent}"""']
        if layout == 'empty':
            return [f'{indent}""""""']
        return []

    # -- definitions
    def make_func(self, mid: int, scope: str, in_class: bool, refs: List[str]) -> Item:
        r = self.r
        uid = self.new_uid()
        name = f'f{uid}'
        deco = None
        if in_class:
            deco = r.choice([None, None, None, 'classmethod', 'staticmethod', 'property', 'property+setter', 'old-classmethod',
                             'old-staticmethod', 'noop'] + (['noop+staticmethod', 'noop+classmethod', 'noop+property', 'staticmethod+noop', 'classmethod+noop',
                                                                 'staticmethod>classmethod', 'classmethod>staticmethod', 'old-staticmethod>classmethod', 'old-classmethod>staticmethod'] if self.f.rebind else []))
        else:
            deco = r.choice([None, None, None, 'noop'])
        first = {'classmethod': 'cls', 'old-classmethod': 'cls', 'staticmethod': '', 'old-staticmethod': '', 'noop+staticmethod': '', 'staticmethod+noop': '',
                 'noop+classmethod': 'cls', 'classmethod+noop': 'cls', 'staticmethod>classmethod': 'cls', 'classmethod>staticmethod': '',
                 'old-staticmethod>classmethod': 'cls', 'old-classmethod>staticmethod': ''}.get(deco or '', 'self') if in_class else ''
        extra = r.choice(['', 'a', 'a, b=1', '*args, **kw', 'a: int = 0'])
        if deco in ('property', 'property+setter', 'noop+property'):
            extra = ''
        sig = '(' + ', '.join(x for x in (first, extra) if x) + ')'
        it = Item(kind='func', name=name, uid=uid, deco=deco, sig=sig, is_async=(r.random() < .15 and deco in (None, 'noop')))
        it.doc = self.doc(f'function {name}', refs)
        qual = (scope + '.' if scope else '') + name
        self.spec.defs[uid] = (mid, qual, 'func')
        self.spec.notes['qual2uid'][(mid, qual)] = uid
        return it

    def make_dup(self, d: Item, in_class: bool) -> Item:
        """a later definition of the same name; with `rebind` it differs from the first in what the interpreter reports"""
        r = self.r
        if not self.f.rebind:
            dup = dataclasses.replace(d, members=list(d.members))
            dup.doc = (d.doc or '') + ' second definition.'
            return dup
        if d.kind == 'func':
            k = r.random()
            if k < .15:
                # a variable first, the function afterwards is what counts -- emitted the other way round by the caller
                pass
            dup = dataclasses.replace(d, members=[])
            dup.doc = r.choice([None, None, (d.doc or 'Doc.') + ' second definition.'])
            if in_class:
                dup.deco = r.choice([None, None, 'classmethod', 'staticmethod', 'old-classmethod', 'old-staticmethod', 'noop', d.deco])
                if d.deco in ('property', 'property+setter') or dup.deco in ('property', 'property+setter'):
                    dup.deco = d.deco
                first = {'classmethod': 'cls', 'old-classmethod': 'cls', 'staticmethod': '', 'old-staticmethod': ''}.get(dup.deco or '', 'self')
                dup.sig = '(' + first + ')' if dup.deco not in ('property', 'property+setter') else d.sig
            dup.is_async = (not d.is_async) if (r.random() < .3 and dup.deco in (None, 'noop')) else (d.is_async and dup.deco in (None, 'noop'))
            return dup
        if d.kind == 'var':
            value, typ = r.choice([lt for lt in LITERALS if lt[0] != d.value])
            dup = dataclasses.replace(d, value=value, returns=typ, members=[])
            dup.doc = r.choice([None, d.doc, f'Doc of variable {d.name}, rebound.'])
            return dup
        dup = dataclasses.replace(d, members=list(d.members))
        dup.doc = r.choice([None, (d.doc or '') + ' second definition.'])
        if d.kind == 'class' and r.random() < .5:
            # the later definition of the name differs in what it derives from (an exception or not)
            if d.bases in ([], ['object'], ['dict']):
                dup.bases, dup.base_uids = [r.choice(['Exception', 'KeyError'])], [None]
            elif d.bases and d.base_uids == [None]:
                dup.bases, dup.base_uids = [], []
        return dup

    def make_var(self, mid: int, scope: str, refs: List[str]) -> Item:
        r = self.r
        uid = self.new_uid()
        name = f'v{uid}' if r.random() < .7 else f'V{uid}'      # all-caps => constant
        value, typ = r.choice(LITERALS)
        it = Item(kind='var', name=name, uid=uid, value=value)
        if r.random() < .25:
            it.ann = r.choice(['int', 'str', "'object'", 'list'])
        elif scope and self.f.docstyle == 'epytext' and getattr(self, 'cur_defs', None) and r.random() < .4:
            # (string annotation spelling the full dotted name of something defined in this very module, without importing it)
            it.ann = "'" + self.spec.modname(mid) + '.' + r.choice(self.cur_defs) + "'"
            it.value = 'None'
        if r.random() < .5:
            it.doc = f'Doc of variable {name} w{r.randrange(10**5):05d}.'
        it.returns = typ
        qual = (scope + '.' if scope else '') + name
        self.spec.defs[uid] = (mid, qual, 'var')
        self.spec.notes['qual2uid'][(mid, qual)] = uid
        return it

    def make_class(self, mid: int, scope: str, visible_classes: List[Tuple[str, Optional[int]]], refs: List[str], depth: int = 0) -> Item:
        r = self.r
        uid = self.new_uid()
        name = f'C{uid}'
        it = Item(kind='class', name=name, uid=uid)
        if self.f.inheritance and visible_classes and r.random() < .6:
            k = r.choice([1, 1, 1, 2])
            chosen = r.sample(visible_classes, min(k, len(visible_classes)))
            # keep CPython's linearisation consistent: never list a class together with one of its descendants,
            # nor the same class twice under two names
            anc = self.spec.notes.setdefault('anc', {})
            keep = []
            for c in chosen:
                others = [o for o in chosen if o is not c]
                if any(c[1] in anc.get(o[1], set()) or (c[1] == o[1] and o in keep) for o in others):
                    continue
                keep.append(c)
            chosen = keep
            it.bases = [c[0] for c in chosen]
            it.base_uids = [c[1] for c in chosen]
            a = set()
            for c in chosen:
                a.add(c[1])
                a |= anc.get(c[1], set())
            anc[uid] = a
        elif r.random() < .3:
            # (IOError and EnvironmentError are other names of OSError)
            it.bases = [r.choice(['Exception', 'ValueError', 'object', 'dict', 'KeyError', 'Exception', 'LookupError', 'OSError', 'IOError', 'EnvironmentError', 'UserWarning',
                                  'StopIteration', 'BaseException', 'ArithmeticError', 'UnicodeError'])]
            it.base_uids = [None]
        it.doc = self.doc(f'class {name}', refs)
        qual = (scope + '.' if scope else '') + name
        self.spec.defs[uid] = (mid, qual, 'class')
        self.spec.notes['qual2uid'][(mid, qual)] = uid
        n = r.randint(0, 4)
        for _ in range(n):
            k = r.random()
            if k < .5:
                mem = self.make_func(mid, qual, True, refs)
            elif k < .8:
                mem = self.make_var(mid, qual, refs)
            elif self.f.nested and depth < 2:
                mem = self.make_class(mid, qual, [], refs, depth + 1)
            else:
                continue
            if self.f.blocks and r.random() < .12:
                mem = Item(kind='block', block=r.choice(BLOCKS), members=[mem])
            it.members.append(mem)
            if self.f.duplicates and mem.kind == 'func' and r.random() < .15:
                dup = self.make_dup(mem, True)
                it.members.append(Item(kind='dup', members=[dup], name=mem.name, uid=mem.uid))
            elif self.f.rebind and mem.kind == 'var' and r.random() < .3:
                it.members.append(Item(kind='dup', members=[self.make_dup(mem, True)], name=mem.name, uid=mem.uid))
        if self.f.main_blocks and r.random() < .08:
            # a main guard in a class body: what it defines is not bound when the module is imported
            hu = self.new_uid()
            it.members.append(Item(kind='main', members=[Item(kind='raw', text=f'def script_only{hu}(self): pass\nSCRIPT_ONLY{hu} = 1')]))
        if self.f.overrides:
            for fam in ('ov1', 'ov2'):
                k = r.random()
                if it.bases:
                    k *= .6          # subclasses mostly re-assign the name at class level
                else:
                    k = .22 + k * .5 if k < .5 else k      # roots mostly set it in __init__
                if k < .22:
                    it.members.append(Item(kind='raw', text=f'{fam} = {r.choice(["1", "None", "[]"])}' + (f'\n"""Doc of {name}.{fam}."""' if r.random() < .4 else '')))
                elif k < .36:
                    it.members.append(Item(kind='raw', text=f'def __init__(self):\n    self.{fam} = 0' + (f'\n    """Instance doc of {name}.{fam}."""' if r.random() < .4 else '')))
                    break
                elif k < .5:
                    sib2 = [m_.name for m_ in it.members if m_.kind in ('func', 'var') and m_.name]
                    see = f' See L{{{r.choice(sib2)}}}.' if sib2 and self.f.docstyle == 'epytext' and r.random() < .5 else ''
                    it.members.append(Item(kind='raw', text=f'def {fam}m(self):' + (f'\n    """Doc of {name}.{fam}m.{see}"""' if r.random() < .5 else '') + '\n    return 1'))
        if self.f.fields and r.random() < .3:
            fid = self.new_uid()
            sib = [m_.name for m_ in it.members if m_.kind in ('func', 'var') and m_.name]
            # the first sentence (shown as summary in tables of other pages too) may link to a member of the same class
            first = f'Documented only, see L{{{r.choice(sib)}}} w{fid}.' if sib and self.f.docstyle == 'epytext' and r.random() < .6 else f'documented only w{fid}.'
            it.doc = (it.doc or f'Doc of class {name}.') + f'\n\n@ivar iv{fid}: {first}\n@type iv{fid}: C{{int}}'
            it.notes_fields = [f'iv{fid}']  # type: ignore[attr-defined]
        return it

    # -- modules
    def mname(self, idx: int, prefix: str = 'm') -> str:
        if self.f.name_salt is None:
            return f'{prefix}{idx}'
        return f'{prefix}{(idx * 37 + self.f.name_salt * 11) % 89:02d}'

    def layout(self) -> None:
        r, s = self.r, self.spec
        nroots = 2 if (self.f.multi_root and r.random() < .4) else 1
        order = 0
        for ri in range(nroots):
            if ri == 1 and r.random() < .5:
                m = Mod(len(s.mods), 'solo', None, False, order=order)
                order += 1
                s.mods.append(m)
                continue
            root = Mod(len(s.mods), 'rt' if ri == 0 else 'r2', None, True)
            s.mods.append(root)
            pkgs = [root.mid]
            for _ in range(r.randint(0, 2)):
                par = r.choice(pkgs)
                p = Mod(len(s.mods), self.mname(len(s.mods), 'k'), par, True)
                s.mods.append(p)
                pkgs.append(p.mid)
            nm = r.randint(2, self.f.max_modules) if ri == 0 else r.randint(1, 2)
            for _ in range(nm):
                par = r.choice(pkgs)
                priv = '_' if (self.f.privacy or self.f.reexports) and r.random() < .3 else ''
                m = Mod(len(s.mods), f'{priv}{self.mname(len(s.mods))}', par, False, order=order)
                order += 1
                s.mods.append(m)
        if self.f.odd_names and r.random() < .3:
            # a module named like its root package, and a non-ASCII module
            root = s.mods[0]
            # (file names that are no identifiers: nothing can import them by name, they are documented all the same)
            m = Mod(len(s.mods), r.choice([root.name, 'é_mod', '0001_initial', 'make-release']), root.mid, False, order=order)
            order += 1
            s.mods.append(m)
        if self.f.odd_names and r.random() < .25:
            pk = r.choice([x for x in s.mods if x.is_pkg])
            s.mods.append(Mod(len(s.mods), '__main__', pk.mid, False, order=order))
            order += 1
        if self.f.odd_names and r.random() < .25:
            # two sibling modules whose names differ only by case
            pk = r.choice([x for x in s.mods if x.is_pkg])
            tw = f'tw{len(s.mods)}'
            s.mods.append(Mod(len(s.mods), tw, pk.mid, False, order=order))
            s.mods.append(Mod(len(s.mods), tw.upper()[0] + tw[1:], pk.mid, False, order=order + 1))
            order += 2

    def rel_or_abs(self, frm: int, to: int) -> str:
        """module path text usable in a from-import inside module `frm` to reach module `to` (absolute or relative)"""
        s, r = self.spec, self.r
        absname = s.modname(to)
        if not self.f.aliases and r.random() < .5:
            return absname
        fm = s.mods[frm]
        # package context of the importing module
        pkg = frm if fm.is_pkg else fm.parent
        if pkg is None or r.random() < .45:
            return absname
        # walk up from pkg until an ancestor of `to`
        chain = []
        p: Optional[int] = pkg
        level = 1
        while p is not None:
            pname = s.modname(p)
            if absname == pname or absname.startswith(pname + '.'):
                rest = absname[len(pname):].lstrip('.')
                return '.' * level + rest
            p = s.mods[p].parent
            level += 1
            if level > 3:
                break
        return absname

    def fill_module(self, m: Mod) -> None:
        r, s, f = self.r, self.spec, self.f
        items: List[Item] = []
        m.doc = self.doc(f'module #{m.mid}', [])
        if f.docstyle == 'epytext' and m.doc and r.random() < .3:
            # section titles (same syntax in epytext and reST): the page gets a table of contents
            # (one title whose identifier starts with the very prefix the writer puts in front of docstring identifiers)
            t1, t2 = f'{r.choice(["Section", "RST part", "rst"])} s{r.randrange(10**5):05d}', f'Other part s{r.randrange(10**5):05d}'
            m.doc += f'\n\n{t1}\n{"=" * len(t1)}\n\nText of the section, see `{t2}`_ and `{t1}`_.\n\n{t2}\n{"=" * len(t2)}\n\nMore text, back to `{t1}`_.'
        visible: List[Tuple[str, Optional[int]]] = []       # class expressions usable as bases here
        star_passed: List[Tuple[str, int]] = []              # public class names a star-imported module had imported itself
        refs: List[str] = []
        local_names: Dict[str, Tuple[str, Any]] = {}
        earlier = [x for x in s.mods if not x.is_pkg and 0 <= x.order < m.order and self.exports.get(x.mid) and x.name.isidentifier()]
        # imports
        for src in (r.sample(earlier, min(len(earlier), r.randint(0, 3))) if earlier else []):
            exp = self.exports[src.mid]
            path = self.rel_or_abs(m.mid, src.mid)
            form = r.choice(['from', 'from', 'from-as', 'import', 'import-as', 'from-mod', 'star'] if f.aliases else ['from', 'import'])
            if f.star and not f.reexports and self.imported_classes.get(src.mid) and not s.notes.get(('all', src.mid)) and r.random() < .5:
                form = 'star'       # the source module imported classes itself: a star import passes them on
            if form == 'star' and not f.star:
                form = 'from'
            if form in ('from', 'from-as'):
                picks = r.sample(exp, min(len(exp), r.randint(1, 3)))
                parts, binds = [], []
                for (n, uid, kind) in picks:
                    if form == 'from-as' and r.random() < .7:
                        a = f'A{self.new_uid()}'
                        parts.append(f'{n} as {a}')
                        binds.append((a, 'obj', uid))
                    else:
                        parts.append(n)
                        binds.append((n, 'obj', uid))
                it = Item(kind='import', text=f'from {path} import {", ".join(parts)}', binds=binds)
                for ln, _, uid in binds:
                    if s.defs[uid][2] == 'class':
                        visible.append((ln, uid))
                        self.imported_classes.setdefault(m.mid, []).append((ln, uid))
                    refs.append(ln)
                    # sibling-module re-exporter: this module lists the imported name in its own __all__
                    if f.reexports and r.random() < .25 and uid not in self.reexported and not s.notes.get(('all', src.mid)) \
                            and s.defs[uid][0] == src.mid and '.' not in s.defs[uid][1]:
                        self.reexported.add(uid)
                        s.moved[uid] = (m.mid, ln)
                        s.notes.setdefault(('reexp', m.mid), []).append(ln)
            elif form == 'star':
                it = Item(kind='import', text=f'from {path} import *', star_from=s.modname(src.mid))
                # names bound are decided by the source module's __all__/public names: recorded by the dumper, not here
                for (n, uid, kind) in exp:
                    if not n.startswith('_') and kind == 'class' and s.notes.get(('all', src.mid)) is None:
                        visible.append((n, uid))
                # a module without __all__ passes on the public names it imported itself
                if s.notes.get(('all', src.mid)) is None and not f.reexports:
                    for (n, uid) in self.imported_classes.get(src.mid, []):
                        if not n.startswith('_') and all(v[0] != n for v in visible):
                            visible.append((n, uid))
                            star_passed.append((n, uid))
            elif form in ('import', 'import-as'):
                absname = s.modname(src.mid)
                if form == 'import-as':
                    a = f'M{self.new_uid()}'
                    it = Item(kind='import', text=f'import {absname} as {a}', binds=[(a, 'mod', absname)])
                    prefix = a
                else:
                    it = Item(kind='import', text=f'import {absname}', binds=[(absname.split(".")[0], 'mod', absname.split('.')[0])])
                    prefix = absname
                for (n, uid, kind) in exp:
                    if kind == 'class':
                        visible.append((f'{prefix}.{n}', uid))
                    refs.append(f'{prefix}.{n}')
            else:   # from pkg import module
                sp = s.mods[src.mid].parent
                if sp is None:
                    continue
                ppath = self.rel_or_abs(m.mid, sp)
                if ppath.strip('.') == '' and ppath != '.':
                    ppath = ppath
                a = None
                txt = f'from {ppath} import {src.name}'
                local = src.name
                if r.random() < .4:
                    a = f'M{self.new_uid()}'
                    txt += f' as {a}'
                    local = a
                binds_ = [(local, 'mod', s.modname(src.mid))]
                others = [x for x in earlier if x.parent == sp and x.mid != src.mid and x.name not in local_names and x.name != local]
                if a is None and others and r.random() < .5:
                    # several submodules in one statement
                    for x in r.sample(others, min(len(others), r.randint(1, 2))):
                        txt += f', {x.name}'
                        binds_.append((x.name, 'mod', s.modname(x.mid)))
                it = Item(kind='import', text=txt, binds=binds_)
                for (n, uid, kind) in exp:
                    if kind == 'class':
                        visible.append((f'{local}.{n}', uid))
                    refs.append(f'{local}.{n}')
            items.append(it)
        # definitions
        ndefs = r.randint(2, 6)
        exports: List[Tuple[str, int, str]] = []
        deferred: List[Item] = []
        self.cur_defs: List[str] = []
        for (n, uid) in star_passed[:2]:
            # a class derived from a name that reached this module through two imports (the second one a star import)
            d = self.make_class(m.mid, '', [(n, uid)], refs)
            d.bases, d.base_uids = [n], [uid]
            visible.append((d.name, d.uid))
            refs.append(d.name)
            exports.append((d.name, d.uid, 'class'))
            items.append(d)
        for _ in range(ndefs):
            k = r.random()
            if k < .45:
                d = self.make_class(m.mid, '', list(visible), refs)
                visible.append((d.name, d.uid))
            elif k < .75:
                d = self.make_func(m.mid, '', False, refs)
            else:
                d = self.make_var(m.mid, '', refs)
            refs.append(d.name)
            if d.kind in ('func', 'var'):
                self.cur_defs.append(d.name)
            exports.append((d.name, d.uid, d.kind))
            if f.blocks and r.random() < .2:
                d = Item(kind='block', block=r.choice(BLOCKS), members=[d])
            items.append(d)
            if f.duplicates and r.random() < (.3 if f.rebind else .12) and d.kind in ('class', 'func'):
                # a second definition of the same name (the later one wins)
                dup = self.make_dup(d, False)
                if f.rebind and r.random() < .5:
                    # the second definition comes after the definitions that follow (a subclass may sit between the two)
                    deferred.append(Item(kind='dup', members=[dup], name=d.name, uid=d.uid))
                else:
                    items.append(Item(kind='dup', members=[dup], name=d.name, uid=d.uid))
                s.notes.setdefault('dups', []).append(d.uid)
            elif f.rebind and d.kind == 'var' and r.random() < .35:
                items.append(Item(kind='dup', members=[self.make_dup(d, False)], name=d.name, uid=d.uid))
            elif f.rebind and d.kind == 'var' and d.value in ('1', '2.5', '-1') and not d.ann and r.random() < .5:
                # updated in place by an operation that changes the type of the value
                items.append(Item(kind='raw', text=f'{d.name} {r.choice(["/= 4", "+= 0.5", "*= 1j"])}'))
            if f.rebind and d.kind == 'class' and not isinstance(d, type(None)) and items and items[-1] is d and r.random() < .12:
                # the name was imported (a fallback with another exception-ness) before the class statement defines it; a subclass follows
                fb = 'KeyError' if not (d.bases and d.bases[0] in ('Exception', 'ValueError', 'KeyError', 'LookupError', 'OSError')) else 'dict'
                items.insert(len(items) - 1, Item(kind='raw', text=f'from builtins import {fb} as {d.name}'))
                su = self.new_uid()
                items.append(Item(kind='raw', name=f'AfterImport{su}', text=f'class AfterImport{su}({d.name}):\n    """Derives from the class, not from what had been imported."""'))
            elif f.rebind and d.kind in ('class', 'func') and r.random() < .1:
                # the name held a plain value before the definition: the definition is what the interpreter ends up with
                items.insert(len(items) - 1 - (1 if items[-1].kind == 'dup' else 0), Item(kind='raw', text=f'{d.name} = {r.choice(["0", "None", "[]"])}'))
        items.extend(deferred)
        if f.rebind and r.random() < .2 and not s.notes.get('has_overload'):
            s.notes['has_overload'] = True       # (once per project: a module that star-imports this one must not define the name again)
            # a decorator of the project that merely has the name of a typing helper
            ou = self.new_uid()
            items.append(Item(kind='raw', name=f'ovuser{ou}', text=(
                f'def overload(f):\n    return f\n@overload\ndef ovuser{ou}(a):\n    """First registration w{ou}."""\n'
                f'@overload\ndef ovuser{ou}(a, b=1):\n    """Last registration w{ou}, the one that stays."""\n'
                f'class OvHost{ou}:\n    @overload\n    def meth(self):\n        """Documented method w{ou}."""')))
        if f.odd_names and r.random() < .2:
            # two classes whose qualified names differ in case only (a class and its lower-case compatibility subclass)
            cls_names = [n for n, _, k_ in exports if k_ == 'class' and n != n.lower() and not any(e[0] == n.lower() for e in exports)]
            if cls_names:
                n0 = r.choice(cls_names)
                items.append(Item(kind='raw', name=n0.lower(), text=f'class {n0.lower()}({n0}):\n    """Lower-case spelling of L{{{n0}}}."""'))
        if f.zope and r.random() < .35:
            items.insert(0, Item(kind='raw', text='from zope.interface import Interface, implementer'))
            iu = self.new_uid()
            iface = Item(kind='class', name=f'I{iu}', uid=iu, bases=['Interface'], base_uids=[None], doc=f'Interface I{iu}.')
            iface.members.append(Item(kind='raw', text=f'def im{iu}(arg):\n    "interface method"'))
            s.defs[iu] = (m.mid, iface.name, 'class')
            s.notes['qual2uid'][(m.mid, iface.name)] = iu
            items.append(iface)
            exports.append((iface.name, iu, 'class'))
            ifaces = s.notes.setdefault('ifaces', [])
            ifaces.append((iface.name, iu, m.mid))
            cu = self.new_uid()
            impl = Item(kind='class', name=f'C{cu}', uid=cu, deco=f'@implementer({iface.name})', doc=None)
            impl.members.append(self.make_func(m.mid, impl.name, True, refs))
            s.defs[cu] = (m.mid, impl.name, 'class')
            s.notes['qual2uid'][(m.mid, impl.name)] = cu
            items.append(impl)
            exports.append((impl.name, cu, 'class'))
            visible.append((impl.name, cu))
            if r.random() < .5:
                # an interface that carries a declaration of its own (a marker interface it provides), by decorator and by call
                items.append(Item(kind='raw', text=(
                    f'from zope.interface import classImplements as _classImplements\nclass IMarker{iu}(Interface):\n    "marker"\n'
                    f'@implementer(IMarker{iu})\nclass IDeclared{iu}(Interface):\n    "an interface with a declaration of its own"\n'
                    f'class ILate{iu}(Interface):\n    "declared by a call"\n_classImplements(ILate{iu}, IMarker{iu})')))
        if f.zope and r.random() < .3:
            # interfaces made by *calling* an interface factory (a project subclass of InterfaceClass), each with its own implementer
            zu = self.new_uid()
            lines = ['from zope.interface import implementer as _implementer', 'from zope.interface.interface import InterfaceClass as _InterfaceClass',
                     f'class IFactory{zu}(_InterfaceClass):', '    "interface factory"']
            n_if = r.randint(2, 3)
            for q in range(n_if):
                factory = r.choice([f'IFactory{zu}', '_InterfaceClass'])
                lines += [f'ICalled{zu}_{q} = {factory}("ICalled{zu}_{q}")', f'"Interface made by a call, number {q}."']
            me = s.modname(m.mid)
            for q in range(n_if):
                if r.random() < .8:
                    lines += [f'@_implementer(ICalled{zu}_{q})', f'class CImpl{zu}_{q}:', f'    "implements only ICalled{zu}_{q}"']
                elif r.random() < .7:
                    # the first interface named is a name of this project that does not exist; the real one follows
                    lines += [f'import {me.split(".")[0]}', f'@_implementer({me}.INoSuch{zu}_{q}, ICalled{zu}_{q})', f'class CImplMissing{zu}_{q}:', f'    "names a missing interface first"']
            if r.random() < .6:
                # the same kind of call inside a function and a method body: what a function binds locally is documented nowhere
                lines += [f'def zmake{zu}():', f'    ILocal{zu} = IFactory{zu}("ILocal{zu}")', f'    return ILocal{zu}',
                          f'class ZHost{zu}:', f'    def build(self):', f'        ILocalM{zu} = IFactory{zu}("ILocalM{zu}")', f'        self.made = ILocalM{zu}', f'        return ILocalM{zu}']
            items.append(Item(kind='raw', text='\n'.join(lines)))
        if f.assign_alias and visible and r.random() < .4:
            a = f'al{self.new_uid()}'
            dotted = [v for v in visible if '.' in v[0]]
            tgt = r.choice(dotted) if dotted and r.random() < .6 else r.choice(visible)
            items.append(Item(kind='alias', name=a, text=f'{a} = {tgt[0]}'))
            visible.append((a, tgt[1]))
            exports.append((a, tgt[1], 'class')) if tgt[1] is not None and r.random() < .5 else None
            if r.random() < .6:
                d = self.make_class(m.mid, '', [(a, tgt[1])], refs)
                d.bases, d.base_uids = [a], [tgt[1]]
                items.append(d)
                exports.append((d.name, d.uid, 'class'))
                visible.append((d.name, d.uid))
        if f.class_imports and earlier and r.random() < .3:
            src = r.choice(earlier)
            n, uid, kind = r.choice(self.exports[src.mid])
            cu = self.new_uid()
            cname = f'C{cu}'
            ci = Item(kind='class', name=cname, uid=cu, doc=None)
            ci.members.append(Item(kind='import', text=f'from {self.rel_or_abs(m.mid, src.mid)} import {n}', binds=[(n, 'obj', uid)]))
            ci.members.append(self.make_var(m.mid, cname, refs))
            s.defs[cu] = (m.mid, cname, 'class')
            s.notes['qual2uid'][(m.mid, cname)] = cu
            items.append(ci)
            exports.append((cname, cu, 'class'))
        if f.local_imports and earlier:
            bound_here = {b[0] for it in items if it.kind == 'import' for b in it.binds}
            star_srcs = {it.star_from for it in items if it.kind == 'import' and it.star_from}
            # (1) a function body imports something else under a name this module (or a class of it) already binds:
            #     the function's local scope, never the enclosing one, receives that binding
            targets = [b for it in items if it.kind == 'import' for b in it.binds] + [(d.name, 'obj', d.uid) for d in items if d.kind in ('class', 'func')]
            for _ in range(r.randint(0, 2)):
                if not targets:
                    break
                ln = r.choice(targets)[0]
                src = r.choice(earlier)
                n2, uid2, kind2 = r.choice(self.exports[src.mid])
                hu = self.new_uid()
                imp = r.choice([f'from {self.rel_or_abs(m.mid, src.mid)} import {n2} as {ln}', f'import {s.modname(src.mid)} as {ln}'])
                if r.random() < .5:
                    items.append(Item(kind='raw', text=f'def loc{hu}():\n    {imp}\n    return {ln}', name=f'loc{hu}'))
                else:
                    items.append(Item(kind='raw', text=f'class L{hu}:\n    def meth{hu}(self):\n        {imp}\n        return {ln}\n    lv{hu} = 1', name=f'L{hu}'))
            # (2) a class body uses a module-level name and binds the same name itself afterwards, by an import
            src = r.choice(earlier)
            # classes and functions only: the reference identifies them by their definition site, plain values only by name
            cands = [e for e in self.exports[src.mid] if e[2] in ('class', 'func') and e[0] not in bound_here and s.modname(src.mid) not in star_srcs and not any(d.name == e[0] for d in items)]
            others = [(x, e) for x in earlier for e in self.exports[x.mid] if e[2] in ('class', 'func')]
            if cands and others and r.random() < .6:
                n, uid, kind = r.choice(cands)
                x2, (n2, uid2, kind2) = r.choice(others)
                if uid2 != uid and s.modname(x2.mid) not in star_srcs:
                    cu = self.new_uid()
                    cname = f'C{cu}'
                    items.append(Item(kind='import', text=f'from {self.rel_or_abs(m.mid, x2.mid)} import {n2} as {n}', binds=[(n, 'obj', uid2)]))
                    ci = Item(kind='class', name=cname, uid=cu, doc=None)
                    ci.members.append(Item(kind='raw', text=f'use{cu} = {n}'))
                    if kind2 == 'class' and r.random() < .5:
                        ci.members.append(Item(kind='raw', text=f'class In{cu}({n}):\n    pass'))
                    ci.members.append(Item(kind='import', text=f'from {self.rel_or_abs(m.mid, src.mid)} import {n}', binds=[(n, 'obj', uid)]))
                    ci.members.append(self.make_var(m.mid, cname, refs))
                    s.defs[cu] = (m.mid, cname, 'class')
                    s.notes['qual2uid'][(m.mid, cname)] = cu
                    items.append(ci)
                    exports.append((cname, cu, 'class'))
        if f.main_blocks and r.random() < .3:
            hu = self.new_uid()
            guard = Item(kind='main', members=[Item(kind='raw', text=f'class Hidden{hu}: pass'), Item(kind='raw', text=f'def hidden{hu}(): pass')])
            if exports and r.random() < .5:
                # the guarded block also defines names the module really has, differently
                n0 = r.choice(exports)[0]
                guard.members.append(Item(kind='raw', text=f'def {n0}(*args):\n    """Version of the script."""\n{n0}_only_as_script = "s"'))
            # ... at the top of the module, or inside a block that is taken
            items.append(guard if r.random() < .6 else Item(kind='block', block=r.choice(['if', 'try', 'with', 'for']), members=[guard]))
        if f.main_blocks and r.random() < .3:
            hu = self.new_uid()
            items.append(Item(kind='raw', text=f'def outer{hu}():\n    class Local{hu}: pass\n    def local{hu}(): pass\n    return Local{hu}, local{hu}',
                              name=f'outer{hu}'))
        reexp = s.notes.get(('reexp', m.mid), [])
        if (f.star and r.random() < .35) or reexp:
            pub = [n for n, _, _ in exports if r.random() < .7] + list(reexp)
            if pub:
                items.append(Item(kind='all', names=pub))
                s.notes[('all', m.mid)] = pub
        m.items = items
        self.exports[m.mid] = exports

    def fill_package(self, p: Mod) -> None:
        r, s, f = self.r, self.spec, self.f
        items: List[Item] = []
        p.doc = self.doc(f'package #{p.mid}', [])
        if f.docstyle == 'epytext' and p.doc and r.random() < .3:
            t1 = f'Package section s{r.randrange(10**5):05d}'
            p.doc += f'\n\n{t1}\n{"=" * len(t1)}\n\nText of the section.'
        subtree = [x for x in s.mods if not x.is_pkg and x.mid != p.mid and s.modname(x.mid).startswith(s.modname(p.mid) + '.') and x.name.isidentifier()]
        allnames: List[str] = []
        if f.reexports:
            for src in r.sample(subtree, min(len(subtree), r.randint(0, 2))):
                exp = [e for e in self.exports.get(src.mid, []) if e[1] not in self.reexported]
                if not exp or s.notes.get(('all', src.mid)):
                    continue
                rel = '.' + s.modname(src.mid)[len(s.modname(p.mid)) + 1:]
                path = rel if r.random() < .7 else s.modname(src.mid)
                form = r.choice(['plain', 'plain', 'as', 'star'] if f.star else ['plain', 'as'])
                if form == 'star':
                    items.append(Item(kind='import', text=f'from {path} import *', star_from=s.modname(src.mid)))
                    pub = [e for e in exp if not e[0].startswith('_')]
                    for (n, uid, kind) in r.sample(pub, min(len(pub), r.randint(1, 3))):
                        allnames.append(n)
                        s.moved[uid] = (p.mid, n)
                        self.reexported.add(uid)
                        if r.random() < .35:
                            # the same re-exporter binds the object a second time, explicitly
                            items.append(Item(kind='import', text=f'from {path} import {n}', binds=[(n, 'obj', uid)]))
                    continue
                picks = r.sample(exp, min(len(exp), r.randint(1, 2)))
                parts, binds = [], []
                for (n, uid, kind) in picks:
                    if form == 'as':
                        a = f'R{self.new_uid()}'
                        parts.append(f'{n} as {a}')
                        binds.append((a, 'obj', uid))
                        exported = a
                    else:
                        parts.append(n)
                        binds.append((n, 'obj', uid))
                        exported = n
                    if r.random() < .8:
                        allnames.append(exported)
                        s.moved[uid] = (p.mid, exported)
                        self.reexported.add(uid)
                        if r.random() < .2:
                            # the re-exporting module binds the name itself before the import replaces it (a placeholder, a fallback)
                            items.append(Item(kind='raw', text=r.choice([f'{exported} = None', f'def {exported}(*args):\n    raise NotImplementedError'])))
                            s.notes['placeholder_before_reexport'] = True
                items.append(Item(kind='import', text=f'from {path} import {", ".join(parts)}', binds=binds))
        if f.pkg_imports and not f.reexports:
            for src in r.sample(subtree, min(len(subtree), r.randint(0, 2))):
                exp = self.exports.get(src.mid, [])
                if not exp:
                    continue
                rel = '.' + s.modname(src.mid)[len(s.modname(p.mid)) + 1:]
                path = rel if r.random() < .6 else s.modname(src.mid)
                if r.random() < .5:
                    items.append(Item(kind='import', text=f'from {path} import *', star_from=s.modname(src.mid)))
                else:
                    picks = r.sample(exp, min(len(exp), r.randint(1, 2)))
                    items.append(Item(kind='import', text=f'from {path} import {", ".join(n for n, _, _ in picks)}', binds=[(n, 'obj', uid) for n, uid, _ in picks]))
        exports: List[Tuple[str, int, str]] = []
        for _ in range(r.randint(0, 2)):
            d = self.make_func(p.mid, '', False, []) if r.random() < .5 else self.make_class(p.mid, '', [], [])
            items.append(d)
            exports.append((d.name, d.uid, d.kind))
            if r.random() < .5 and allnames:
                allnames.append(d.name)
        if f.odd_names and f.reexports and r.random() < .15:
            # package __init__ re-exports, under the *name of a submodule*, a class defined in that submodule
            direct = [x for x in s.children(p.mid) if not x.is_pkg and self.exports.get(x.mid) and x.name.isidentifier()]
            cands = [(x, e) for x in direct for e in self.exports[x.mid] if e[2] == 'class' and e[1] not in self.reexported]
            if cands:
                # the stdlib `unittest` shape: submodule x holds `x = SomeClass`; the package does `from .x import x` and exports 'x'
                x, (n, uid, kind) = r.choice(cands)
                x.items.append(Item(kind='alias', name=x.name, text=f'{x.name} = {n}'))
                items.append(Item(kind='import', text=f'from .{x.name} import {x.name}', binds=[(x.name, 'obj', uid)]))
                allnames.append(x.name)
                s.notes['module_name_clash'] = True
        if allnames:
            items.append(Item(kind='all', names=allnames))
            s.notes[('all', p.mid)] = allnames
        p.items = items
        self.exports[p.mid] = exports

    def add_cycles(self) -> None:
        r, s = self.r, self.spec
        mods = [m for m in s.mods if not m.is_pkg and m.order >= 0]
        for m in mods:
            later = [x for x in mods if x.order > m.order and self.exports.get(x.mid) and x.name.isidentifier()]
            if later and r.random() < .4:
                src = r.choice(later)
                n, uid, kind = r.choice(self.exports[src.mid])
                if r.random() < .5:
                    m.items.insert(0, Item(kind='raw', text=f'from typing import TYPE_CHECKING\nif TYPE_CHECKING:\n    from {s.modname(src.mid)} import {n}'))
                else:
                    hu = self.new_uid()
                    m.items.append(Item(kind='raw', text=f'def late{hu}():\n    from {s.modname(src.mid)} import {n}\n    return {n}', name=f'late{hu}'))
                s.notes['has_cycle'] = True

    def add_consumers(self) -> None:
        """C07: modules that refer to re-exported objects through the defining module, the re-exporting module, or both"""
        r, s = self.r, self.spec
        root = s.mods[0]
        cons = []
        for uid, (rmid, exported) in list(s.moved.items()):
            dmid, qual, kind = s.defs[uid]
            D, R = s.modname(dmid), s.modname(rmid)
            name = qual
            for style in r.sample(['from-D', 'from-R', 'import-D', 'import-R', 'both', 'star-D', 'star-R', 'both-same'], r.randint(1, 4)):
                cu = self.new_uid()
                prefix = r.choice(['a', 'z', 'm'])
                cm = Mod(len(s.mods), f'{prefix}cons{cu}', root.mid, False, order=10 ** 5 + cu)
                lines = []
                refs = []
                if style in ('from-D', 'both'):
                    lines.append(f'from {D} import {name} as D{cu}')
                    refs.append((f'D{cu}', 'name'))
                if style in ('from-R', 'both'):
                    lines.append(f'from {R} import {exported} as R{cu}')
                    refs.append((f'R{cu}', 'name'))
                if style == 'both-same':
                    # the same local name imported twice, from the defining module first: the later import is the binding
                    lines.append(f'from {D} import {name} as B{cu}')
                    lines.append(f'from {R} import {exported} as B{cu}')
                    refs.append((f'B{cu}', 'name'))
                if style == 'star-D' and not name.startswith('_') and not s.notes.get(('all', dmid)):
                    lines.append(f'from {D} import *')
                    refs.append((name, 'name'))
                if style == 'star-R' and not exported.startswith('_'):
                    lines.append(f'from {R} import *')
                    refs.append((exported, 'name'))
                if style == 'import-D':
                    lines.append(f'import {D}')
                    refs.append((f'{D}.{name}', 'dotted'))
                if style == 'import-R':
                    lines.append(f'import {R} as MR{cu}')
                    refs.append((f'MR{cu}.{exported}', 'dotted'))
                body = []
                for i, (ref, _) in enumerate(refs):
                    if kind == 'class':
                        body.append(f'class U{cu}_{i}({ref}):\n    """Subclass. See L{{{D}.{name}}} and L{{{R}.{exported}}}."""')
                    body.append(f'def g{cu}_{i}(a: {ref}) -> {ref}:\n    """Uses L{{{ref}}}, L{{{D}.{name}}} and L{{{R}.{exported}}}."""')
                cm.items = [Item(kind='raw', text='\n'.join(lines + body))]
                cm.doc = f'Consumer of object {uid}.'
                s.mods.append(cm)
                cons.append({'mid': cm.mid, 'uid': uid, 'refs': refs, 'kind': kind, 'cu': cu, 'style': style})
        s.notes['consumers'] = cons
        self.add_definer_imports(.3)
        # the defining module uses its re-exporter itself, below its definitions (a real import cycle: when the defining module is analysed
        # first, the re-exporter is analysed in the middle of it and moves objects out of a module that is still being processed)
        for uid, (rmid, exported) in list(s.moved.items()):
            dmid, qual, kind = s.defs[uid]
            dm = next(x for x in s.mods if x.mid == dmid)
            if '.' not in qual and not dm.is_pkg and r.random() < .2 and not any(it.kind == 'raw' and it.text.startswith('import ') for it in dm.items[-1:]):
                dm.items.append(Item(kind='raw', text=f'import {s.modname(rmid)}'))
                s.notes.setdefault('definers_importing_reexporter', set()).add(dmid)
        # insiders: definitions of the defining module itself that name the re-exported object in annotations, by the name it has
        # there, and that are themselves re-exported by a module that does not bind that name
        ins = []
        for uid, (rmid, exported) in list(s.moved.items()):
            dmid, qual, kind = s.defs[uid]
            dm = next(x for x in s.mods if x.mid == dmid)
            if r.random() < .5 or '.' in qual or s.notes.get(('all', dmid)) or dm.is_pkg:
                continue
            cu = self.new_uid()
            D = s.modname(dmid)
            cname, fname = f'I{cu}', f'i{cu}'
            dm.items.append(Item(kind='raw', name=cname, text=(
                f'class {cname}:\n    """Insider class."""\n    t{cu}: {qual} = None\n    """Insider attribute."""\n'
                f'    def im{cu}(self, a: {qual}) -> {qual}:\n        """Insider method."""\n'
                f'def {fname}(a: {qual}) -> \'{qual}\':\n    """Insider function."""')))
            cexp = cname if r.random() < .6 else f'X{cu}'
            pm = Mod(len(s.mods), f"{r.choice(['a', 'z', 'm'])}pub{cu}", root.mid, False, order=10 ** 5 + cu)
            imp = f'{cname} as {cexp}' if cexp != cname else cname
            pm.items = [Item(kind='raw', text=f'from {D} import {imp}, {fname}\n__all__ = [{cexp!r}, {fname!r}]')]
            pm.doc = f'Publishes insiders of object {uid}.'
            s.mods.append(pm)
            ins.append({'uid': uid, 'pmid': pm.mid, 'cls': cexp, 'fn': fname, 'cu': cu, 'written': qual})
        s.notes['insiders'] = ins

    def add_definer_imports(self, p: float) -> None:
        """the defining module also *imports* something under the name it then defines (a fallback replaced by the real definition):
        after the move the old location must lead to the moved object, not to what had been imported"""
        r, s = self.r, self.spec
        for uid, (rmid, exported) in list(s.moved.items()):
            dmid, qual, kind = s.defs[uid]
            dm = next(x for x in s.mods if x.mid == dmid)
            if '.' not in qual and not dm.is_pkg and r.random() < p:
                dm.items.insert(0, Item(kind='raw', text=r.choice([f'from typing import Any as {qual}', f'from collections import OrderedDict as {qual}'])))
                s.notes['definer_imports_the_name'] = True

    def add_default_refs(self, p: float) -> None:
        """a function whose parameter defaults name a constant and a function of its own module is re-exported by another module, the
        constant and the other function are not: the names in the displayed defaults still lead to them"""
        r, s = self.r, self.spec
        root = s.mods[0]
        done = set()
        for uid, (rmid, exported) in list(s.moved.items()):
            dmid, qual, kind = s.defs[uid]
            dm = next(x for x in s.mods if x.mid == dmid)
            if dmid in done or dm.is_pkg or s.notes.get(('all', dmid)) or r.random() >= p:
                continue
            done.add(dmid)
            cu = self.new_uid()
            dm.items.append(Item(kind='raw', name=f'dflt{cu}', text=(
                f'DEFAULT_PORT{cu} = 8080\n"""The default port."""\ndef helper{cu}(x):\n    """A helper that stays."""\n'
                f'def dflt{cu}(port=DEFAULT_PORT{cu}, callback=helper{cu}, *, pair=(DEFAULT_PORT{cu}, helper{cu})):\n    """Function with defaults naming neighbours."""')))
            pm = Mod(len(s.mods), f"{r.choice(['a', 'z', 'm'])}pubd{cu}", root.mid, False, order=10 ** 5 + cu)
            pm.items = [Item(kind='raw', text=f'from {s.modname(dmid)} import dflt{cu}\n__all__ = [{"dflt" + str(cu)!r}]')]
            pm.doc = f'Publishes a function of module {dmid}.'
            s.mods.append(pm)
            s.notes.setdefault('default_refs', []).append({'dmid': dmid, 'pmid': pm.mid, 'cu': cu})

    def add_privacy(self) -> None:
        r, s = self.r, self.spec
        rules = []
        uids = list(s.defs)
        for _ in range(r.randint(1, 4)):
            uid = r.choice(uids)
            lvl = r.choice(['HIDDEN', 'HIDDEN', 'PRIVATE', 'PUBLIC'])
            k = r.random()
            full = s.final_fullname(uid)
            if k < .55:
                rules.append(f'{lvl}:{full}')
            elif k < .72:
                rules.append(f'{lvl}:**.{full.split(".")[-1]}')
            elif k < .88 or '.' not in full or ' ' in full:
                rules.append(f'{lvl}:{".".join(full.split(".")[:-1])}.*')
            else:
                # `?` and bracket sets match any character, a dot too
                dots = [i for i, c in enumerate(full) if c == '.']
                i = r.choice(dots)
                rules.append(f"{lvl}:{full[:i]}{r.choice(['?', '[.]', '[!q]', '[._]'])}{full[i + 1:] if r.random() < .5 else full[i + 1:i + 2] + '*'}")
        if r.random() < .3:
            m = r.choice([m for m in s.mods if not m.is_pkg])
            rules.append(f'HIDDEN:{s.modname(m.mid)}')
        if len(s.roots()) >= 2 and r.random() < .5:
            # one of several roots is hidden as a whole (a test package documented next to the library, say)
            rules.append(f"HIDDEN:{s.modname(r.choice(s.roots()[1:]).mid)}")
        # a rule on one member of a class that other classes derive from (they inherit the member without overriding it)
        anc = s.notes.get('anc', {})
        base_uids = {b for a in anc.values() for b in a if b is not None}
        members = [u for u, (mid, qual, kind) in s.defs.items() if kind in ('func', 'var') and '.' in qual
                   and s.notes['qual2uid'].get((mid, qual.rsplit('.', 1)[0])) in base_uids]
        if members and r.random() < .6:
            rules.append(f"{r.choice(['HIDDEN', 'HIDDEN', 'PRIVATE'])}:{s.final_fullname(r.choice(members))}")
        if len(rules) >= 2 and r.random() < .4:
            # the same rule given again after others (a config file and the command line): it is the later copy that counts
            rules.append(rules[r.randrange(len(rules) - 1)])
        s.privacy = rules


def generate(r: Any, f: Features) -> Spec:
    g = _Gen(r, f)
    g.layout()
    s = g.spec
    for m in sorted([m for m in s.mods if not m.is_pkg], key=lambda m: m.order if m.order >= 0 else 10 ** 6):
        g.fill_module(m)
    # packages bottom-up
    for p in sorted([m for m in s.mods if m.is_pkg], key=lambda m: -len(s.modname(m.mid))):
        g.fill_package(p)
    if f.consumers:
        g.add_consumers()
    elif f.reexports:
        g.add_definer_imports(.15)
    if f.reexports:
        g.add_default_refs(.3)
    if f.cycles:
        g.add_cycles()
    if f.privacy:
        g.add_privacy()
    return s


# ---- printing -----------------------------------------------------------------------------------------

def _emit_items(g: Optional[_Gen], items: List[Item], indent: str, out: List[str], r: Any, f: Features) -> None:
    gen = g or _Gen(r, f)
    for it in items:
        if it.kind == 'import':
            out.append(indent + it.text)
        elif it.kind in ('raw', 'alias'):
            for ln in it.text.split('\n'):
                out.append(indent + ln)
        elif it.kind == 'all':
            out.append(f'{indent}__all__ = {it.names!r}')
        elif it.kind == 'var':
            if it.ann:
                out.append(f'{indent}{it.name}: {it.ann} = {it.value}')
            else:
                out.append(f'{indent}{it.name} = {it.value}')
            if it.doc:
                out.append(f'{indent}"""{it.doc}"""')
        elif it.kind == 'func':
            name = it.name
            if it.deco in ('classmethod', 'staticmethod', 'property'):
                out.append(f'{indent}@{it.deco}')
            elif it.deco and '>' in it.deco:
                # wrapped once (decorator or assignment form), then wrapped again by assignment with the other wrapper: the last one counts
                inner = it.deco.split('>')[0]
                if not inner.startswith('old-'):
                    out.append(f'{indent}@{inner}')
            elif it.deco and '+' in it.deco and it.deco != 'property+setter':
                # stacked decorators, outermost first; _noop hands its argument back unchanged
                for dname in it.deco.split('+'):
                    out.append(f'{indent}@{"_noop" if dname == "noop" else dname}')
            elif it.deco == 'property+setter':
                out.append(f'{indent}@property')
            elif it.deco == 'noop':
                out.append(f'{indent}@_noop')
            out.append(f"{indent}{'async ' if it.is_async else ''}def {name}{it.sig}:")
            out.extend(gen.render_doc(it.doc, indent + '    '))
            out.append(f'{indent}    return 1')
            if it.deco == 'property+setter':
                out.append(f'{indent}@{name}.setter')
                out.append(f'{indent}def {name}(self, value):')
                out.append(f'{indent}    pass')
            if it.deco and '>' in it.deco:
                inner, outer = it.deco.split('>')
                if inner.startswith('old-'):
                    out.append(f'{indent}{name} = {inner[4:]}({name})')
                out.append(f'{indent}{name} = {outer}({name})')
            if it.deco == 'old-classmethod':
                out.append(f'{indent}{name} = classmethod({name})')
            if it.deco == 'old-staticmethod':
                out.append(f'{indent}{name} = staticmethod({name})')
        elif it.kind == 'class':
            if it.deco:
                out.append(f'{indent}{it.deco}')
            out.append(f"{indent}class {it.name}{'(' + ', '.join(it.bases) + ')' if it.bases else ''}:")
            out.extend(gen.render_doc(it.doc, indent + '    ', 'quote-below' if (it.doc and '\n' in it.doc) else None))
            if it.members:
                _emit_items(gen, it.members, indent + '    ', out, r, f)
            elif it.doc is None:
                out.append(f'{indent}    pass')
            else:
                out.append(f'{indent}    pass')
        elif it.kind == 'dup':
            _emit_items(gen, it.members, indent, out, r, f)
        elif it.kind == 'block':
            b = it.block
            if b == 'if':
                out.append(f'{indent}if True:')
                _emit_items(gen, it.members, indent + '    ', out, r, f)
            elif b == 'if-else':
                out.append(f'{indent}if 1 < 2:')
                _emit_items(gen, it.members, indent + '    ', out, r, f)
                out.append(f'{indent}else:')
                out.append(f'{indent}    pass')
            elif b == 'try':
                out.append(f'{indent}try:')
                _emit_items(gen, it.members, indent + '    ', out, r, f)
                out.append(f'{indent}except ImportError:')
                # the handler is not taken: what it defines is bound nowhere (other definitions of the names of the body, and
                # names of its own)
                decoys: List[str] = []
                for m in it.members:
                    if m.kind == 'func' and r.random() < .4:
                        decoys += [f'{indent}    def {m.name}(*args):', f'{indent}        """Fallback written in a handler that is not taken."""']
                    elif m.kind == 'var' and r.random() < .4:
                        decoys += [f"{indent}    {m.name} = 'fallback'"]
                    elif m.kind == 'class' and r.random() < .3:
                        decoys += [f'{indent}    class {m.name}(Exception):', f'{indent}        """Fallback written in a handler that is not taken."""']
                if r.random() < .4:
                    n_ = r.randrange(10 ** 6)
                    decoys += [f'{indent}    def handler_only{n_}():', f'{indent}        """Defined in a handler only."""', f'{indent}    HANDLER_ONLY{n_} = 1']
                out.extend(decoys or [f'{indent}    pass'])
            elif b == 'try-finally':
                out.append(f'{indent}try:')
                _emit_items(gen, it.members, indent + '    ', out, r, f)
                out.append(f'{indent}finally:')
                out.append(f'{indent}    pass')
            elif b == 'with':
                out.append(f'{indent}with _ctx():')
                _emit_items(gen, it.members, indent + '    ', out, r, f)
            elif b == 'for':
                out.append(f'{indent}for _i in (0,):')
                _emit_items(gen, it.members, indent + '    ', out, r, f)
            elif b in ('if-name-ne', 'if-not-main', 'if-name-ne-rev', 'if-name-other-ne', 'if-elif'):
                test = {'if-name-ne': "__name__ != '__main__'", 'if-not-main': "not __name__ == '__main__'",
                        'if-name-ne-rev': "'__main__' != __name__", 'if-name-other-ne': "__name__ != 'no_such_module'",
                        'if-elif': "__name__ is not None"}[b]
                out.append(f'{indent}if {test}:')
                _emit_items(gen, it.members, indent + '    ', out, r, f)
                if b == 'if-elif':
                    out.append(f'{indent}elif False:')
                    out.append(f'{indent}    pass')
            elif b == 'while-break':
                out.append(f'{indent}while True:')
                _emit_items(gen, it.members, indent + '    ', out, r, f)
                out.append(f'{indent}    break')
            elif b == 'with-as':
                out.append(f'{indent}with _ctx() as _i:')
                _emit_items(gen, it.members, indent + '    ', out, r, f)
        elif it.kind == 'main':
            out.append(f"{indent}if __name__ == '__main__':")
            _emit_items(gen, it.members, indent + '    ', out, r, f)


PRELUDE = ['import contextlib as _contextlib', 'def _noop(f): return f', '@_contextlib.contextmanager', 'def _ctx():', '    yield', '']


def source(spec: Spec, m: Mod, r: Any) -> str:
    f = spec.features or Features()
    out: List[str] = []
    gen = _Gen(r, f)
    out.extend(gen.render_doc(m.doc, '', 'single' if m.doc and '\n' not in m.doc else 'quote-below'))
    needs = any(_uses(it) for it in m.items)
    if needs:
        out.extend(PRELUDE)
    _emit_items(gen, m.items, '', out, r, f)
    return '\n'.join(out) + '\n'


def _uses(it: Item) -> bool:
    if it.kind == 'func' and it.deco and 'noop' in it.deco:
        return True
    if it.kind == 'block' and it.block in ('with', 'with-as'):
        return True
    return any(_uses(x) for x in it.members)


def write(spec: Spec, base: Path, names: Optional[Dict[int, str]] = None, seed: Any = 0) -> List[Path]:
    """Write the project under `base`; returns the root paths (packages: directories, modules: files)."""
    import random
    roots = []
    for m in spec.mods:
        rel = spec.modname(m.mid).split('.')
        r = random.Random(f'print/{seed}/{m.mid}')
        text = source(spec, m, r)
        if m.is_pkg:
            d = base.joinpath(*rel)
            d.mkdir(parents=True, exist_ok=True)
            (d / '__init__.py').write_text(text, encoding='utf-8')
            if m.parent is None:
                roots.append(d)
        else:
            d = base.joinpath(*rel[:-1])
            d.mkdir(parents=True, exist_ok=True)
            p = d / (rel[-1] + '.py')
            p.write_text(text, encoding='utf-8')
            if m.parent is None:
                roots.append(p)
    return roots


def sources(spec: Spec, seed: Any = 0) -> Dict[str, Tuple[bool, str]]:
    """{module full name: (is_package, source)} in creation order (parents before children)."""
    import random
    out = {}
    for m in spec.mods:
        r = random.Random(f'print/{seed}/{m.mid}')
        out[spec.modname(m.mid)] = (m.is_pkg, source(spec, m, r))
    return out
