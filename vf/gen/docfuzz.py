"""G-FUZZ: markup-fragment fuzzer for docstrings (epytext, reST, google, numpy) + arbitrary Unicode + mutated real docstrings."""
from __future__ import annotations

import ast
from functools import lru_cache
from typing import Any, List

EPY = ['L{x}', 'L{a.b<c.d>}', 'C{code}', 'B{bold}', 'I{it}', 'U{http://x.y}', 'U{label<http://x.y>}', 'M{x^2}', 'X{idx}', 'E{lb}', 'E{rb}', 'E{-}', 'S{alpha}',
       '@param a: desc', '@type a: C{int}', '@return: r', '@rtype: L{x}', '@raise ValueError: bad', '@ivar v: d', '@cvar c: d', '@note: n', '@see: s',
       '@author: me', '@since: 1', '@keyword k: d', '@unknown z: q', '@param: noarg', '@type: noarg', '@param a b: two', '@', '@:', '@@', '{', '}', '{{', 'L{', 'C{x',
       'x}', 'L{}', 'C{B{I{deep}}}', '  - item', '- item', '1. one', '1.1. sub', ' 2. two', 'Section\n=======', 'Sub\n---', '概要\n====', '???\n===', 'Справка\n-------', '...\n~~~', 'Sec 2\n=====\n\nSub!\n----', '  Indented title\n  ==============',
       'Summary.\n\n  @param a: x\n\nNotes\n=====\ntext', '  @param a: x\n\nNotes\n=====\ntext', '@return: r\n\nTitle\n=====\n\nmore', '    @see: s\n\n  Sub\n  ---\n  t',
       '@param a: x\n\n  Deeper\n  ======\n  body', 'Intro\n\n    @note: n\n\nAfter the fields.\n\nHead\n====', '@type a: int\nHead\n====\n',
       '   >>> x = 1\n  dedented', '    >>> a\n    b\n c', '  - item\n >>> x', '>>> a\nnot blank', 'Subsub\n~~~~', '>>> 1+1\n2', '>>> x',
       'lit::\n    block\n  more', '::', 'text::', '    indented', '\tTab', 'p1\n\np2', 'E{', 'E{nope}', 'S{nope}', 'L{a<b}', 'U{<}', 'G{graph x}', '@param *args: x', '@param **kw: y']
# the same heading several times in one docstring (identifiers must be made distinct), long headings, headings without any identifier character
_LONG = 'A rather long heading that reads like a whole sentence about many different things'
DUPHEAD = ['Dup\n===\n\na\n\nDup\n===\n\nb', f'{_LONG}\n{"=" * len(_LONG)}\n\ntext\n\n{_LONG}\n{"=" * len(_LONG)}\n\nmore',
           f'{_LONG} one\n{"=" * (len(_LONG) + 4)}\n\ntext\n\n{_LONG} two\n{"=" * (len(_LONG) + 4)}\n\nmore\n\n{_LONG} one\n{"-" * (len(_LONG) + 4)}\n\nend',
           '???\n===\n\nx\n\n???\n===\n\ny\n\n!!!\n---\n\nz', 'Top\n===\n\nSub\n---\n\na\n\nTop\n===\n\nSub\n---\n\nb\n\nSub\n---\n\nc',
           'Dup\n===\n\nDup 1\n=====\n\nDup\n===\n\nDup-1\n=====\n\nx', 'x ' * 40 + '\n' + '=' * 80 + '\n\nt\n\n' + 'x ' * 40 + '\n' + '=' * 80 + '\n\nu']
# fields that are not indented alike (the parser opens a field list per indentation)
EPY += ['Intro.\n\n    @param a: x\n\n@type a: int', 'word\n\n    @param *args: x    ::\n      \n        lit\n\n@type: noarg', '  @param a: x\n@return: r\n    @note: n']
EPY += DUPHEAD
RST = ['*em*', '**strong**', '``lit``', '`ref`', '`text <http://x>`_', '`text <a.b>`', ':py:class:`X`', ':role:`x`', ':unknownrole:`x`', '|sub|', '[1]_', '[#]_', '[*]_', 'name_',
       '_`target`', '.. _t: http://x', '.. [1] foot', '.. note:: n', '.. warning::\n   w', '.. unknowndir:: x', '.. code:: python\n\n   x = 1', '.. code-block:: py\n\n  y', '.. math:: x',
       '.. image:: nope.png', '.. include:: /nonexistent', '.. raw:: html\n\n   <b>x</b>', '.. raw:: html\n   :file: /nonexistent', '.. versionadded:: 1.0', '.. deprecated:: 2\n   use x',
       '.. seealso:: s', '.. contents::', '.. table::\n\n  = =\n  a b\n  = =', '+--+--+\n| a| b|\n+--+--+', '====\nwrong\n==', 'Title\n=====', '???\n===', '概要\n====', '!!!\n!!!\n\n???\n---', 'T\n=', ':param a: d', ':type a: int',
       ':returns: r', ':rtype: `x`', ':raises E: e', ':ivar v: d', ':field', ':field: ', '::\n\n  lit', '>>> 1\n1', '* b1\n* b2', '1. e\n2. f', '#. auto', 'term\n  def', '-o  opt',
       '| line\n| block', '\\', '\\*', '*', '**', '`', '``', '|', '_', '__', 'a_b_', '.. ', '..', '.. |s| replace:: t', '.. class:: c', '.. role:: r', '.. default-role:: emphasis',
       '.. target-notes::', '.. sectnum::', '.. header:: h', '.. csv-table::\n   :header: a\n\n   1', '.. list-table::\n\n   * - x', '.. parsed-literal::\n\n  *x*', '.. py:function:: f', '.. date::']
RST += DUPHEAD
# type specifications with an opening quote that is never closed, followed by a long tail (tokenisers of type fields)
_TAIL = 'one of the many possible values that nobody ever closed the quote of'
EPY += [f'@type a: "{_TAIL}', f"@rtype: '{_TAIL}", f'@type a: list of "{_TAIL} or C{{int}}']
RST += [f':type a: "{_TAIL}', f":rtype: '{_TAIL}"]
GOOGLE = ['Args:\n    a: d', 'Args:\n    a (int): d\n    b (str, optional): e', 'Arguments:\n  *args: x\n  **kw: y', 'Returns:\n    r', 'Returns:\n    int: r', 'Yields:\n    y',
          'Raises:\n    E: e', 'Raise:\n    E', 'Attributes:\n    v (int): d', 'Note:\n    n', 'Notes:\n  n', 'Example:\n    >>> 1', 'Examples:\n    x::\n\n        lit', 'See Also:\n    a, b',
          'Todo:\n    t', 'Warning:\n    w', 'Warns:\n    W: w', 'Keyword Args:\n    k: d', 'Other Parameters:\n    o: d', 'Methods:\n    m: d', 'References:\n    r', 'Args:', 'Args:\n',
          'Args:\n    a', 'Args:\n  a:\n', 'Args:\n    a (int: broken', 'Unknown Section:\n    x', 'Returns:', 'Args:\n\ta: tab']
NUMPY = ['Parameters\n----------\na : int\n    d', 'Parameters\n----------\na, b : int\n    d\n*args\n    x', 'Returns\n-------\nint\n    r', 'Returns\n-------\nr : int', 'Yields\n------\ny',
         'Raises\n------\nE\n    e', 'Attributes\n----------\nv : int\n    d', 'See Also\n--------\na : b\nc', 'Notes\n-----\nn', 'Examples\n--------\n>>> 1', 'References\n----------\n.. [1] r',
         'Parameters\n---------', 'Parameters\n--', 'Parameters\n----------', 'Parameters\n----------\na : {1, 2}, optional', 'Parameters\n----------\na : int, default 1',
         "Parameters\n----------\na : 'str", 'Parameters\n----------\na : {x', 'Other Parameters\n----------------\no', 'Warns\n-----\nW', 'Methods\n-------\nm()\n    d', 'Unknown\n-------\nx']
UNI = ['\x00', '\x01', '\x0b', '\x0c', '\x1b', '\x7f', '\x85', '\u2028', '\u2029', '\ud800', '\udfff', '\ufeff', '\u200f', '\u202e', 'e\u0301', '漢字', '𝔘', '\U0010ffff', '\r', '\r\n', '\t',
       '<', '>', '&', '"', "'", '&amp;', '<b>', ']]>', '<!--', '%s', '{0}', '\\', '\\n', '\\x41', '\\u1234', '$', '#', '~', '^']
WORDS = ['word', 'Some text here.', 'A sentence, with punctuation: yes!', 'x', 'self', 'None', 'int', 'list of str', 'foo.bar.Baz', 'http://example.com/a?b=c&d=e', 'a = 1', '1. not a list',
         'end.', 'The quick brown fox', 'param', 'return']
GOOGLE += [f'Args:\n    a (str, one of "{_TAIL}): d', f"Returns:\n    '{_TAIL}: r", f'Args:\n    a ("x\\" {_TAIL}, optional): d']
NUMPY += [f'Parameters\n----------\na : "{_TAIL}\n    d', f"Returns\n-------\n'{_TAIL}\n    r", f'Parameters\n----------\na : {{"x", "{_TAIL}}}\n    d']
# a body followed by a return field, with something the renderer (not the parser) fails on
EPY += ['Plain words first.\n\nMore x\xa0y here.\n\n@return: the value', 'Plain words first.\n\nBody M{\\frac} here.\n\n@return: r', 'Body text x\xa0y here.\n\n@return: the value', 'Body M{\\frac} here.\n\n@return: r', 'Section\n=======\n\nBody x\x0cy.\n\n@return: r\n@rtype: int']
RST += ['Plain words first.\n\nMore x\xa0y here.\n\n:return: r', 'Body x\xa0y.\n\n:return: r', ':math:`\\frac`\n\n:returns: r', 'Section\n=======\n\nBody x\x0cy.\n\n:return: r\n:rtype: int']
# types that fail inside the renderer (characters XML cannot carry, a no-break space inside a word), in type positions of every markup
EPY += ['@type a: in\ufffft', '@rtype: L{x}\xa0or\xa0None', '@param a: d\n@type a: list of in\ufffet']
RST += [':type a: in\ufffft', ':rtype: x\xa0y', ':param in\ufffft a: d']
GOOGLE += ['Args:\n    a (in\ufffft): d', 'Returns:\n    in\xa0t: r', 'Attributes:\n    v (list of in\ufffet): d']
NUMPY += ['Parameters\n----------\na : in\ufffft\n    d', 'Returns\n-------\nin\xa0t\n    r']


def _nested(depth: int, numpy: bool) -> str:
    """field descriptions that contain sections of their own, `depth` levels deep"""
    out = []
    for lvl in range(depth):
        pad = '    ' * (lvl * (1 if numpy else 2))
        if numpy:
            out += [f'{pad}Parameters', f'{pad}----------', f'{pad}a{lvl} : int']
        else:
            out += [f'{pad}Args:', f'{pad}    a{lvl}: description']
    pad = '    ' * (depth * (1 if numpy else 2))
    out.append(f'{pad}innermost text')
    return '\n'.join(out)


ALL = EPY + RST + GOOGLE + NUMPY + UNI + WORDS


@lru_cache(maxsize=1)
def real_docstrings() -> List[str]:
    from vf.gen import corpus
    out: List[str] = []
    for name in ('argparse.py', 'textwrap.py', 'difflib.py', 'fractions.py', 'string.py', 'heapq.py', 'bisect.py', 'copy.py', 'shlex.py', 'statistics.py'):
        p = corpus.STDLIB / name
        try:
            tree = ast.parse(p.read_text(encoding='utf-8'))
        except (OSError, SyntaxError):
            continue
        for n in ast.walk(tree):
            if isinstance(n, (ast.Module, ast.ClassDef, ast.FunctionDef, ast.AsyncFunctionDef)):
                d = ast.get_docstring(n, clean=False)
                if d and len(d) < 3000:
                    out.append(d)
    try:
        import pydoctor.epydoc.markup.epytext as e
        if e.__doc__:
            out.append(e.__doc__)
    except Exception:  # noqa: BLE001
        pass
    return out


def fuzz(r: Any) -> str:
    k = r.random()
    if k < .55:
        n = r.randint(1, 8)
        parts = []
        for _ in range(n):
            pool = r.choice([EPY, RST, GOOGLE, NUMPY, UNI, WORDS, ALL])
            frag = r.choice(pool)
            if r.random() < .15:
                frag = frag * r.randint(2, 4)
            if r.random() < .2:
                frag = ' ' * r.randint(1, 8) + frag.replace('\n', '\n' + ' ' * r.randint(0, 6))
            parts.append(frag)
        return r.choice(['\n', '\n\n', ' ', '', '\n  ', '\n\n\n']).join(parts) if r.random() < .5 else ''.join(p + r.choice(['\n', '\n\n', ' ', '']) for p in parts)
    if k < .85:
        docs = real_docstrings()
        d = r.choice(docs) if docs else 'doc'
        for _ in range(r.randint(1, 4)):
            m = r.randrange(7)
            lines = d.split('\n')
            if m == 0 and len(lines) > 1:
                del lines[r.randrange(len(lines))]
            elif m == 1:
                i = r.randrange(len(lines))
                lines.insert(i, lines[i])
            elif m == 2 and len(lines) > 1:
                i, j = r.randrange(len(lines)), r.randrange(len(lines))
                lines[i], lines[j] = lines[j], lines[i]
            elif m == 3:
                i = r.randrange(len(lines))
                lines[i] = lines[i] + ' ' + r.choice(ALL)
            elif m == 4:
                i = r.randrange(len(lines))
                lines[i] = ' ' * r.randint(0, 9) + lines[i].lstrip()
            elif m == 5:
                i = r.randrange(len(lines))
                lines.insert(i, r.choice(ALL))
            d = '\n'.join(lines)
            if m == 6 and d:
                cut = r.randrange(len(d))
                d = d[:cut]
        return d
    if k < .93:
        return ''.join(chr(r.choice([r.randrange(0x20, 0x7f), r.randrange(0, 0x20), r.randrange(0x80, 0x3000), r.randrange(0xd800, 0xe000), r.randrange(0x10000, 0x10ffff)]))
                       for _ in range(r.randint(0, 60)))
    # deep nesting / long repetition: stress recursion and regexes
    if r.random() < .25:
        return _nested(r.randint(8, 28), r.random() < .5)
    s = r.choice(['C{', 'B{I{', '*', '`', '(', '[', ' ' * 4 + '- ', '  ', '>>> ', '| ', '\\', 'L{a<', '@param ', ':param ', '.. note:: '])
    return s * r.randint(20, 400) + r.choice(['', 'x', '}' * 50, '\n'])
